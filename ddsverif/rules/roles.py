"""
Roles of private functions, found by what they do - never by their (private) name.

The public names of the package (dds.keep / eval / load / set_store / accept_module, the Store and codec interfaces,
dds_hash / dds_hash_commut, the record classes and their fields that cross modules, error codes, option keys) are stable
anchors.  Private functions, closures, attributes and constants are not: a maintainer renames them, moves them to another
module (importing them back) or turns a module function into a static method.  Each role below says which structural fact
identifies the function; all results are cached on the context.
"""
from __future__ import annotations

import ast
from typing import Dict, List, Optional, Set

from ..model import AnchorError, Func, unparse
from .common import Ctx


def _cache(ctx: Ctx) -> Dict[str, object]:
    return ctx.__dict__.setdefault("_roles", {})


def digest_helpers(ctx: Ctx) -> List[Func]:
    """The digest helpers of the hashing module (`_algo_str`, `_algo_bytes` on the pinned tree): small functions with one
    parameter whose body feeds that parameter (possibly encoded) to `hashlib.<algo>(..)` and returns the hexadecimal digest."""
    c = _cache(ctx)
    if "digest" in c:
        return c["digest"]  # type: ignore
    prog = ctx.prog
    out: List[Func] = []
    for f in prog.funcs.values():
        if not f.module.name.startswith("dds") or f.cls is not None:
            continue
        ps = f.positional_params()
        if len(ps) != 1:
            continue
        body = [st for st in f.node.body if not (isinstance(st, ast.Expr) and isinstance(st.value, ast.Constant))]
        if len(body) > 4:
            continue
        feeds = False
        for n in f.own_nodes():
            if isinstance(n, ast.Call) and (prog.dotted(f, n.func) or "").startswith("hashlib.") and n.args:
                if any(isinstance(x, ast.Name) and x.id == ps[0] for x in ast.walk(n.args[0])):
                    feeds = True
        if feeds and not any(isinstance(n, ast.Call) and unparse(n.func) == "isinstance" for n in f.own_nodes()):
            out.append(f)
    # helpers that only wrap another digest helper (`_algo_str(s) = _algo_bytes(s.encode(..))`)
    changed = True
    while changed:
        changed = False
        for f in prog.funcs.values():
            if f in out or not f.module.name.startswith("dds") or f.cls is not None or len(f.positional_params()) != 1:
                continue
            body = [st for st in f.node.body if not (isinstance(st, ast.Expr) and isinstance(st.value, ast.Constant))]
            if len(body) == 1 and isinstance(body[0], ast.Return) and isinstance(body[0].value, ast.Call):
                call = body[0].value
                if isinstance(call.func, ast.Name) and call.func.id == "PyHash" and call.args and isinstance(call.args[0], ast.Call):
                    call = call.args[0]
                fs, _ = prog.callees(f, call, ctx._types)
                if len(fs) == 1 and fs[0] in out and call.args and any(isinstance(x, ast.Name) and x.id == f.positional_params()[0] for x in ast.walk(call.args[0])):
                    out.append(f)
                    changed = True
    out.sort(key=lambda g: g.qname)
    c["digest"] = out
    return out


def digest_helper_names(ctx: Ctx) -> Set[str]:
    return {f.qname for f in digest_helpers(ctx)}


def is_digest_call(ctx: Ctx, f: Func, n: ast.AST) -> bool:
    """a call of a digest helper (by resolution, so also through an import alias or from another module)"""
    if not isinstance(n, ast.Call):
        return False
    d = ctx.prog.dotted(f, n.func) or ""
    names = digest_helper_names(ctx)
    return d in names or ctx.prog._canon(d) in names


def composer(ctx: Ctx) -> Func:
    """The signature composer (`_build_return_sig` on the pinned tree): the function whose result is stored as `fun_return_sig`
    of the FunctionInteractions built by the main function inspector, and that calls the order-insensitive combiner."""
    c = _cache(ctx)
    if "composer" in c:
        return c["composer"]  # type: ignore
    from ..flow import flow_of
    prog = ctx.prog
    votes: Dict[str, int] = {}
    for f in prog.funcs.values():
        if not f.module.name.startswith("dds"):
            continue
        for n in f.own_nodes():
            if isinstance(n, ast.Call) and unparse(n.func).split(".")[-1] == "FunctionInteractions":
                for k in n.keywords:
                    if k.arg != "fun_return_sig":
                        continue
                    vals = [k.value]
                    if isinstance(k.value, ast.Name):
                        vals = [d.value for d in flow_of(prog, f).defs_of_use(k.value) if d.value is not None]
                    for v in vals:
                        if isinstance(v, ast.Call):
                            fs, _ = prog.callees(f, v, ctx._types)
                            for g in fs:
                                if any(isinstance(x, ast.Call) and (prog.dotted(g, x.func) or "").endswith("dds_hash_commut") for x in g.own_nodes()):
                                    votes[g.qname] = votes.get(g.qname, 0) + 1
    if not votes:
        raise AnchorError("role signature-composer (the function whose result becomes fun_return_sig of the FunctionInteractions and that calls dds_hash_commut) not found")
    best = max(votes.items(), key=lambda kv: kv[1])[0]
    c["composer"] = prog.funcs[best]
    return prog.funcs[best]


def resolver_rec(ctx: Ctx) -> Func:
    """The recursive step of the object resolver (`ObjectRetrieval._retrieve_object_rec`): the directly recursive method of the
    class that defines the public `retrieve_object`."""
    c = _cache(ctx)
    if "resolver_rec" in c:
        return c["resolver_rec"]  # type: ignore
    prog = ctx.prog
    entry = prog.func("dds._retrieve_objects.ObjectRetrieval.retrieve_object")
    if entry is None or entry.cls is None:
        raise AnchorError("dds._retrieve_objects.ObjectRetrieval.retrieve_object not found")
    best = None
    for m in entry.cls.methods.values():
        rec = [n for n in m.own_nodes() if isinstance(n, ast.Call) and m in prog.callees(m, n, ctx._types)[0]]
        if rec and (best is None or len(rec) > best[0]):
            best = (len(rec), m)
    if best is None:
        raise AnchorError("role resolver-step (the directly recursive method of ObjectRetrieval) not found")
    c["resolver_rec"] = best[1]
    ctx.report.roles[best[1].qname] = "role:resolver-step"
    return best[1]


def type_classifier(ctx: Ctx) -> Func:
    """The type classifier (`_is_authorized_type`): the package function that the resolver step calls with `type(<object>)`."""
    c = _cache(ctx)
    if "type_classifier" in c:
        return c["type_classifier"]  # type: ignore
    prog = ctx.prog
    rec = resolver_rec(ctx)
    scopes = [rec] + [m for m in (rec.cls.methods.values() if rec.cls is not None else []) if m is not rec]
    for f in scopes:
        for n in f.own_nodes():
            if isinstance(n, ast.Call) and n.args and isinstance(n.args[0], ast.Call) and unparse(n.args[0].func) == "type":
                fs, _ = prog.callees(f, n, ctx.types)
                fs = [g for g in fs if g.module.name.startswith("dds")]
                if len(fs) == 1:
                    c["type_classifier"] = fs[0]
                    return fs[0]
    raise AnchorError("role type-classifier (the function the resolver calls with type(obj)) not found")


def stage_parser(ctx: Ctx) -> Func:
    """The stage-list parser (`_parse_stages`): the package function that the API hands the `dds_stages` parameter to."""
    c = _cache(ctx)
    if "stage_parser" in c:
        return c["stage_parser"]  # type: ignore
    prog = ctx.prog
    api = prog.modules.get("dds._api")
    if api is None:
        raise AnchorError("dds._api not found")
    for f in [g for g in prog.funcs.values() if g.module is api]:
        if "dds_stages" not in f.params:
            continue
        for n in f.own_nodes():
            if isinstance(n, ast.Call) and any(isinstance(a, ast.Name) and a.id == "dds_stages" for a in n.args):
                fs, _ = prog.callees(f, n, ctx._types)
                fs = [g for g in fs if g.module.name.startswith("dds") and "dds_stages" not in g.params[1:]]
                def _raises(g: Func, depth: int = 0) -> bool:
                    # a refusal in the function, in a nested helper, or in a package helper it calls (the per-element check may be a function of its own)
                    if any(isinstance(x, ast.Raise) for x in g.own_nodes()) or g.nested:
                        return True
                    if depth < 1:
                        for c_ in g.own_nodes():
                            if isinstance(c_, ast.Call):
                                hs, _ = prog.callees(g, c_, ctx._types)
                                if any(h.module is g.module and h is not g and _raises(h, depth + 1) for h in hs):
                                    return True
                    return False
                cand = [g for g in fs if _raises(g)]
                if len(cand) == 1:
                    c["stage_parser"] = cand[0]
                    return cand[0]
    # not handed the option by name (a wrong variable at the call site is what a rule wants to report): the function of the API module that the
    # holder of the option calls and that answers a list of processing stages (by its return annotation)
    for f in [g for g in prog.funcs.values() if g.module is api]:
        if "dds_stages" not in f.params:
            continue
        for n in f.own_nodes():
            if isinstance(n, ast.Call):
                fs, _ = prog.callees(f, n, ctx._types)
                for g in fs:
                    if g.module.name.startswith("dds") and g is not f and "dds_stages" not in g.params[1:] and g.node.returns is not None \
                            and "ProcessingStage" in unparse(g.node.returns, 200) and len(g.positional_params()) == 1:
                        c["stage_parser"] = g
                        return g
    raise AnchorError("role stage-list-parser (the function that receives the dds_stages option) not found")


def _record_fields(ctx: Ctx, qname: str) -> Dict[str, str]:
    """field name -> annotation text of a NamedTuple / dataclass style record of the package"""
    c = ctx.prog.cls(qname)
    if c is None:
        raise AnchorError(f"{qname} not found")
    out: Dict[str, str] = {}
    for st in c.node.body:
        if isinstance(st, ast.AnnAssign) and isinstance(st.target, ast.Name):
            out[st.target.id] = unparse(st.annotation, 200)
    return out


def path_map_field(ctx: Ctx) -> str:
    """the field of the evaluation-context record that holds the evaluation's (path -> signature) map (`requested_paths`): the field
    annotated as a mapping from DDSPath to PyHash"""
    c = _cache(ctx)
    if "path_map_field" not in c:
        fs = [k for k, a in _record_fields(ctx, "dds.structures.EvalContext").items() if "DDSPath" in a and "PyHash" in a]
        if len(fs) > 1:
            # several path -> signature maps: the path map is the one every evaluation has (a required field, not an Optional one with a default)
            k_ = ctx.prog.cls("dds.structures.EvalContext")
            required = [st.target.id for st in k_.node.body if isinstance(st, ast.AnnAssign) and isinstance(st.target, ast.Name) and st.target.id in fs
                        and st.value is None and not unparse(st.annotation, 200).startswith("Optional")]
            if len(required) == 1:
                fs = required
        if len(fs) > 1:
            # ... or the one filled from the collection of the kept paths (all_store_paths)
            api = ctx.prog.modules.get("dds._api")
            from ..flow import flow_of
            hit = []
            for f in [g for g in ctx.prog.funcs.values() if g.module is api]:
                fl = flow_of(ctx.prog, f)
                for n in f.own_nodes():
                    if isinstance(n, ast.Call):
                        for k in n.keywords:
                            if k.arg in fs:
                                exprs = [k.value]
                                if isinstance(k.value, ast.Name):
                                    exprs = [d.value for d in fl.root_defs(k.value) if d.value is not None] or exprs
                                if any(isinstance(x, ast.Call) and unparse(x.func).endswith("all_store_paths") for e in exprs for x in ast.walk(e)):
                                    hit.append(k.arg)
            if hit:
                fs = sorted(set(hit))
        if len(fs) != 1:
            raise AnchorError("role path-map field of dds.structures.EvalContext (annotated Dict[DDSPath, PyHash]) not found")
        c["path_map_field"] = fs[0]
    return c["path_map_field"]  # type: ignore


def _ctor_attr(ctx: Ctx, cls_q: str, wanted) -> str:
    """the attribute that the constructor of the class binds to the parameter whose annotation satisfies `wanted`"""
    k = ctx.prog.cls(cls_q)
    init = k.methods.get("__init__") if k is not None else None
    if init is None:
        raise AnchorError(f"{cls_q}.__init__ not found")
    a = init.node.args
    ann = {x.arg: unparse(x.annotation, 200) if x.annotation is not None else "" for x in a.posonlyargs + a.args + a.kwonlyargs}
    params = [p for p, t in ann.items() if wanted(t)]
    for n in init.own_nodes():
        if isinstance(n, (ast.Assign, ast.AnnAssign)) and isinstance(n.value, ast.Name) and n.value.id in params:
            t = n.targets[0] if isinstance(n, ast.Assign) else n.target
            if isinstance(t, ast.Attribute) and isinstance(t.value, ast.Name) and t.value.id == "self":
                return t.attr
    # the parameter wrapped in a conversion (`self.x = set(param)`): still the attribute that holds it (whether a copy is acceptable is a rule's business)
    for n in init.own_nodes():
        if isinstance(n, (ast.Assign, ast.AnnAssign)) and n.value is not None and any(isinstance(y, ast.Name) and y.id in params for y in ast.walk(n.value)):
            t = n.targets[0] if isinstance(n, ast.Assign) else n.target
            if isinstance(t, ast.Attribute) and isinstance(t.value, ast.Name) and t.value.id == "self":
                return t.attr
    raise AnchorError(f"attribute of {cls_q} bound to the wanted constructor parameter not found")


def resolved_refs_attr(ctx: Ctx) -> str:
    """attribute of the per-evaluation analysis context that maps the loaded / produced paths to signatures (`resolved_references`)"""
    c = _cache(ctx)
    if "resolved_refs_attr" not in c:
        c["resolved_refs_attr"] = _ctor_attr(ctx, "dds._eval_ctx.EvalMainContext", lambda t: "DDSPath" in t and "PyHash" in t)
    return c["resolved_refs_attr"]  # type: ignore


def accepted_attr(ctx: Ctx) -> str:
    """attribute of the per-evaluation analysis context that holds the accepted packages (`whitelisted_packages`)"""
    c = _cache(ctx)
    if "accepted_attr" not in c:
        c["accepted_attr"] = _ctor_attr(ctx, "dds._eval_ctx.EvalMainContext", lambda t: "Package" in t)
    return c["accepted_attr"]  # type: ignore
