"""
C05 - value hashing is total, deterministic and collision-free on supported values.

R1  totality: partial primitives (struct.pack with an integer / 'f' code, int.to_bytes, decimal conversion of an unbounded
    int) are applied only under a guard that establishes their domain.
R2  determinism: no identity / environment / time source in the hasher, and no memo of digests keyed by the value
    (dict and lru_cache keys identify 1, 1.0 and True).
R3  nothing dropped, order kept: container branches iterate the whole value, every element / key / value / field reaches
    the recursive hasher, no sorted / set / reversed, the separator is outside the hex alphabet.
R4  boundary pre-images pairwise distinct (abstract evaluation on None, "", [], (), {}, OrderedDict(), empty dataclass).
R5  numeric encodings do not overlap: fixed-width packs have different widths; any other numeric encoding starts with a
    constant tag longer than every fixed width.
R6  the size guard dominates the iteration of every container branch and raises SEQUENCE_TOO_LONG.
"""
from __future__ import annotations

import ast
import collections
import dataclasses
import struct
from typing import Any, Dict, List, Optional, Set, Tuple

from ..absint import Evaluator, Const, Sym, Obj, Digest, TOP, NOT_HANDLED
from ..cfg import cfg_of
from ..model import unparse, stmt_key, Func, AnchorError, walk_no_nested
from .common import Ctx, dominated, done_nodes, raises_with_code, pass_outcomes, ancestors

PROP = "C05"
INT_CODES = {"b": (-2**7, 2**7), "B": (0, 2**8), "h": (-2**15, 2**15), "H": (0, 2**16), "i": (-2**31, 2**31), "I": (0, 2**32),
             "l": (-2**31, 2**31), "L": (0, 2**32), "q": (-2**63, 2**63), "Q": (0, 2**64)}
NONDET = ("id", "hash", "os.getpid", "os.getcwd", "os.environ", "time.time", "time.monotonic", "random.random", "uuid.uuid4", "sys.argv")


@dataclasses.dataclass
class _EmptyDC:
    pass


def family(ctx: Ctx) -> List[Func]:
    """The functions that make up the value hasher: everything of the hashing module that `dds_hash` reaches through calls
    (nested closures, methods of a helper object it builds, module-level helpers), the digest helpers `_algo*` excepted."""
    got = getattr(ctx, "_hasher_family", None)
    if got is not None:
        return got
    outer = ctx.prog.func("dds.fun_args.dds_hash")
    if outer is None:
        raise AnchorError("dds.fun_args.dds_hash not found")
    from .roles import digest_helper_names
    _digests = digest_helper_names(ctx)
    fam: List[Func] = []
    work = [outer]
    while work:
        f = work.pop()
        for n in f.own_nodes():
            if isinstance(n, ast.Call):
                fs, _ = ctx.prog.callees(f, n, ctx.types)
                for g in fs:
                    if g.module.name.startswith("dds") and g is not outer and g not in fam and g.qname not in _digests and (
                            g.module is outer.module or g.name.startswith("_")) and g.module.name not in ("dds._config", "dds.structures"):
                        fam.append(g)
                        work.append(g)
    fam.sort(key=lambda g: (g.node.lineno, g.qname))
    ctx._hasher_family = fam  # type: ignore
    return fam


def fam_call(ctx: Ctx, f: Func, c: ast.AST) -> Optional[Func]:
    """the member of the hasher family that a call node of `f` invokes (None otherwise)"""
    if not isinstance(c, ast.Call):
        return None
    fam = family(ctx)
    fs, _ = ctx.prog.callees(f, c, ctx.types)
    for g in fs:
        if g in fam:
            return g
    return None


def value_index(ctx: Ctx, g: Func, _depth: int = 0) -> int:
    """position (among the parameters a caller passes) of the parameter that holds the value being hashed: the one a dispatcher tests
    with isinstance, or the one a wrapper hands to the dispatcher's value parameter"""
    memo = ctx.__dict__.setdefault("_value_index", {})
    if g.qname in memo:
        return memo[g.qname]
    ps = g.positional_params()
    res = 0
    counts = {p: 0 for p in ps}
    for n in g.own_nodes():
        if isinstance(n, ast.Call) and unparse(n.func) == "isinstance" and n.args and isinstance(n.args[0], ast.Name) and n.args[0].id in counts:
            counts[n.args[0].id] += 1
    if ps and max(counts.values()) > 0:
        res = ps.index(max(ps, key=lambda p: counts[p]))
    elif _depth < 3:
        memo[g.qname] = 0
        for n in g.own_nodes():
            callee = fam_call(ctx, g, n)
            if callee is not None and callee is not g and isinstance(n, ast.Call):
                vi = value_index(ctx, callee, _depth + 1)
                if vi < len(n.args) and isinstance(n.args[vi], ast.Name) and n.args[vi].id in ps:
                    res = ps.index(n.args[vi].id)
                    break
    memo[g.qname] = res
    return res


def value_param(g: Func, ctx: Optional[Ctx] = None) -> str:
    ps = g.positional_params()
    if not ps:
        return ""
    return ps[value_index(ctx, g)] if ctx is not None else ps[0]


def hashed_arg(ctx: Ctx, f: Func, call: ast.Call) -> Optional[ast.AST]:
    """the argument of a call into the hasher family that is bound to the callee's value parameter"""
    callee = fam_call(ctx, f, call)
    if callee is None:
        return call.args[0] if call.args else None
    vi = value_index(ctx, callee)
    ps = callee.positional_params()
    if vi < len(call.args):
        return call.args[vi]
    for k in call.keywords:
        if vi < len(ps) and k.arg == ps[vi]:
            return k.value
    return None


def hasher(ctx: Ctx) -> Tuple[Func, Func]:
    outer = ctx.prog.func("dds.fun_args.dds_hash")
    if outer is None:
        raise AnchorError("dds.fun_args.dds_hash not found")
    best = None
    total = 0
    for nf in family(ctx):
        k = sum(1 for n in nf.own_nodes() if isinstance(n, ast.Call) and unparse(n.func) == "isinstance")
        total += k
        if best is None or k > best[0]:
            best = (k, nf)
    if best is None or total < 5:
        raise AnchorError("role value-hasher (the functions `dds_hash` reaches in its module, with the isinstance chain) not found")
    return outer, best[1]


def all_branches(ctx: Ctx) -> List[Tuple[List[str], ast.If, Func]]:
    """the type branches of the value hasher, over every dispatching member of the family (a member with at least three
    type tests of its value parameter at the top level of its body)"""
    out: List[Tuple[List[str], ast.If, Func]] = []
    for g in family(ctx):
        bs = [(names, st) for names, st in branches(g) if names]
        if len(bs) >= 3:
            out += [(names, st, g) for names, st in bs]
    return out


def branches(h: Func) -> List[Tuple[List[str], ast.If]]:
    out = []
    from ..inline import InlineBlock

    def flat(stmts):
        for st_ in stmts:
            if isinstance(st_, InlineBlock):
                yield from flat(st_.body)  # the body of an expanded helper stands where its call was
            else:
                yield st_
    for st in flat(h.node.body):
        if isinstance(st, ast.If):
            names: List[str] = []
            negated = {id(y) for x in ast.walk(st.test) if isinstance(x, ast.UnaryOp) and isinstance(x.op, ast.Not) for y in ast.walk(x.operand)}
            for n in ast.walk(st.test):
                if id(n) in negated:
                    continue  # `... and not isinstance(v, type)` excludes a type, it does not select it
                if isinstance(n, ast.Call) and unparse(n.func) == "isinstance" and len(n.args) == 2:
                    t = n.args[1]
                    names += [unparse(x) for x in (t.elts if isinstance(t, ast.Tuple) else [t])]
                elif isinstance(n, ast.Call) and unparse(n.func).endswith("is_dataclass"):
                    names.append("<dataclass>")
                elif isinstance(n, ast.Compare) and isinstance(n.comparators[0], ast.Constant) and n.comparators[0].value is None:
                    names.append("None")
            out.append((names, st))
    return out


def branch_nodes(ctx: Ctx, h: Func, br: ast.AST, elt: str) -> List[Tuple[Func, str, ast.AST]]:
    """(function, name of the hashed value there, node) for every node of a type branch and of the package helpers
    the branch hands the value itself to (`_int_encoding(elt)`): a refactoring may move a branch's encoding there."""
    out: List[Tuple[Func, str, ast.AST]] = []
    seen: Set[str] = {h.qname}

    def go(f: Func, root: ast.AST, name: str, depth: int) -> None:
        for n in ast.walk(root):
            out.append((f, name, n))
            if isinstance(n, ast.Call) and depth < 3:
                fs, _ = ctx.prog.callees(f, n, ctx._types)
                for g in fs:
                    if g.qname in seen or not g.module.name.startswith("dds"):
                        continue
                    for i, a in enumerate(n.args):
                        if isinstance(a, ast.Name) and a.id == name and i < len(g.params):
                            seen.add(g.qname)
                            for st in g.node.body:
                                go(g, st, g.params[i], depth + 1)
    go(h, br, elt, 0)
    return out


def preimages(ctx: Ctx, f: Func, a: ast.AST, depth: int = 0) -> List[Tuple[Func, ast.AST]]:
    """the expressions that an `_algo*(a)` argument can evaluate to, looking through package helpers (their return
    expressions) and single-definition locals"""
    if isinstance(a, ast.Call) and depth < 3:
        fs, _ = ctx.prog.callees(f, a, ctx._types)
        from .roles import digest_helper_names as _dh
        fs = [g for g in fs if g.module.name.startswith("dds") and g.qname not in _dh(ctx)]
        if fs:
            out: List[Tuple[Func, ast.AST]] = []
            for g in fs:
                for r in g.own_nodes():
                    if isinstance(r, ast.Return) and r.value is not None:
                        out += preimages(ctx, g, r.value, depth + 1)
            return out
    if isinstance(a, ast.Name) and depth < 3:
        from ..flow import flow_of
        ds = flow_of(ctx.prog, f).defs_of_use(a) if cfg_of(f).nodes_of(a) else []
        if ds and all(d.kind == "assign" and d.value is not None for d in ds):
            out = []
            for d in ds:
                out += preimages(ctx, f, d.value, depth + 1)
            return out
    return [(f, a)]


LOSSY_TEXT_OPS = {"strip", "rstrip", "lstrip", "lower", "upper", "casefold", "replace", "expandtabs", "translate", "removeprefix", "removesuffix", "sub", "subn",
                  "title", "capitalize", "swapcase", "zfill", "ljust", "rjust", "center"}


def algo_preimage_rule(ctx: Ctx, rule: str) -> int:
    """the digest helpers (`_algo_*`: package functions of the hashing module that feed hashlib) hash their argument itself:
    between the parameter and the digest there is an `encode` at most - no strip / case folding / replace / regex rewrite"""
    rep = ctx.report
    prog = ctx.prog
    n = 0
    from .roles import digest_helpers, is_digest_call
    for f in digest_helpers(ctx):
        digests = [c for c in f.own_nodes() if isinstance(c, ast.Call) and ((prog.dotted(f, c.func) or "").startswith("hashlib.") or is_digest_call(ctx, f, c))]
        if not digests or not f.params:
            continue
        for c in digests:
            if not c.args:
                continue
            n += 1
            sl = ctx.slicer(follow_calls=False).slice(f, c.args[0])
            lossy = sl.find(lambda f_, x: isinstance(x, ast.Call) and isinstance(x.func, ast.Attribute) and x.func.attr in LOSSY_TEXT_OPS)
            desc = f"{f.name}: the digest is taken over the argument itself (`{unparse(c.args[0], 40)}`)"
            if lossy is None:
                rep.ok(rule, f.qname, desc, f.loc(c))
            else:
                rep.bad(rule, f.qname, desc, f.loc(c), lossy.chain() + [
                    f"`{unparse(lossy.node, 50)}` maps different strings to one pre-image: every string value bound to a parameter (direct value, literal in source, default) and "
                    "every dictionary key goes through this helper, so 'x', 'x ' and 'x\\n' share a hash and a kept call is served the blob of another binding"],
                    stmt_key(c), what="strings are normalised (lossy) before hashing: distinct values collide")
    return n


def dataclass_field_source(h: Func, br: ast.AST) -> List[str]:
    """the dataclass branch enumerates the fields with dataclasses.fields(): `__dataclass_fields__`, vars() / __dict__ / dir()
    also hold ClassVar / InitVar pseudo-fields or non-field attributes, i.e. class-level state that is not part of the value"""
    out: List[str] = []
    for n in ast.walk(br):
        bad = None
        if isinstance(n, ast.Attribute) and n.attr in ("__dataclass_fields__", "__dict__", "__annotations__"):
            bad = n.attr
        elif isinstance(n, ast.Call) and isinstance(n.func, ast.Name) and n.func.id in ("vars", "dir"):
            bad = n.func.id + "()"
        if bad:
            out.append(f"{h.loc(n)}: the components of a dataclass are taken from `{bad}`: ClassVar pseudo-fields (e.g. an instance counter) are hashed, so two equal "
                       "values hash differently after the class-level state changed (the signature depends on what ran before in the process)")
    if not any(isinstance(n, ast.Call) and unparse(n.func).endswith("fields") for n in ast.walk(br)) and not out:
        out.append(f"{h.loc(br)}: the dataclass branch does not enumerate dataclasses.fields(value)")
    return out


def run(ctx: Ctx) -> None:
    rep = ctx.report
    prog = ctx.prog
    outer, h = hasher(ctx)
    fam = family(ctx)
    brs = all_branches(ctx)
    rep.analysed["hasher"] = h.qname
    rep.analysed["hasher_family"] = [g.qname for g in fam]
    rep.analysed["branches"] = [b[0] for b in brs]
    rep.rule("C05.R1", "partial primitive applied to the value only under a dominating domain guard")
    rep.rule("C05.R2", "no nondeterminism source; no digest memo keyed by the value (dict / lru_cache)")
    rep.rule("C05.R3", "container branches: whole value iterated, every component hashed recursively, order kept, separator outside hex")
    rep.rule("C05.R4", "abstract evaluation of the hasher on boundary values: pre-images pairwise distinct")
    rep.rule("C05.R5", "numeric pre-image lengths / tags disjoint")
    rep.rule("C05.R6", "size guard dominates iteration and raises SEQUENCE_TOO_LONG")

    # ---- R1 -------------------------------------------------------------------------------
    n1 = 0
    for names, br, bf in brs:
        is_int = "int" in names
        for hf, elt_, n in branch_nodes(ctx, bf, br, value_param(bf, ctx)):
            if not isinstance(n, ast.Call):
                continue
            d = prog.dotted(hf, n.func) or ""
            where = hf.loc(n)
            if d == "struct.pack" and n.args and isinstance(n.args[0], ast.Constant):
                fmt = n.args[0].value
                code = fmt.lstrip("!<>=@")
                if code in INT_CODES or code == "f":
                    n1 += 1
                    lo, hi = INT_CODES.get(code, (None, None))
                    desc = f"struct.pack({fmt!r}, {elt_}) is applied only to values in the range of the format"
                    guard_ok, wit = _range_guard(ctx, hf, n, elt_, lo, hi)
                    if guard_ok:
                        rep.ok("C05.R1", hf.qname, desc, where)
                    else:
                        rep.bad("C05.R1", hf.qname, desc, where, wit + [f"counterexample: dds_hash({hi}) raises struct.error ({fmt!r} requires {lo} <= number < {hi})"],
                                f"pack:{fmt}", what=f"struct.pack({fmt!r}) on an unbounded int raises struct.error")
                elif code == "d":
                    n1 += 1
                    rep.ok("C05.R1", hf.qname, f"struct.pack({fmt!r}) is total on float", where, nontrivial=False)
            elif isinstance(n.func, ast.Attribute) and n.func.attr == "to_bytes":
                n1 += 1
                desc = "int.to_bytes is given a length that always holds the value including its sign bit"
                ln = unparse(n.args[0]) if n.args else ""
                if n.args and isinstance(n.args[0], ast.Name):
                    from ..flow import flow_of
                    ds = flow_of(prog, hf).defs_of_use(n.args[0])
                    if len(ds) == 1 and ds[0].value is not None:
                        ln = unparse(ds[0].value)
                ok = ("bit_length() + 8" in ln or "bit_length() + 9" in ln or ln.endswith("// 8 + 1") or ln.endswith("//8+1"))
                if ok:
                    rep.ok("C05.R1", hf.qname, desc, where)
                else:
                    rep.bad("C05.R1", hf.qname, desc, where, [f"{where}: length `{ln}`: for a positive value whose bit length is a multiple of 8 there is no room for the "
                            "sign bit: OverflowError (e.g. 2**31, 10**12, 2**63)"], "to_bytes", what="int.to_bytes with a too short length raises OverflowError for some integers")
            elif is_int and (d in ("str", "repr") or (d == "format" and len(n.args) > 1 and isinstance(n.args[1], ast.Constant) and n.args[1].value in ("", "d", "n"))):
                if n.args and isinstance(n.args[0], ast.Name) and n.args[0].id == elt_:
                    n1 += 1
                    rep.bad("C05.R1", hf.qname, "decimal conversion of an unbounded int is guarded", where,
                            [f"{where}: `{unparse(n, 50)}`: CPython limits int -> decimal str conversion (4300 digits): dds_hash(10**5000) raises ValueError"],
                            "int-decimal", what="decimal conversion of an unbounded int raises ValueError for huge values")
    rep.floor("C05.R1", n1, 2)

    # ---- R2 -------------------------------------------------------------------------------
    mod = prog.module("dds.fun_args")
    nond = []
    memo = []
    reach = [f for f in prog.funcs.values() if f.module is mod]
    for f in reach:
        for dec in f.node.decorator_list:
            if any(k in unparse(dec) for k in ("lru_cache", "functools.cache", "cache(")):
                memo.append(f"{f.loc()}: {f.qname} is memoised with {unparse(dec)}: the cache key identifies values that compare equal (1 == 1.0 == True, 0.0 == -0.0)")
        for n in f.own_nodes():
            if isinstance(n, ast.Call):
                d = prog.dotted(f, n.func) or ""
                from . import sigflow
                c_ = sigflow.classify_node(ctx, f, n)
                if d in NONDET or d.startswith("random.") or d.startswith("time.") or (c_ is not None and c_[0] == "process"):
                    nond.append(f"{f.loc(n)}: {unparse(n, 50)}")
    # module-level mutable mappings read or written with the hashed value as key
    for name, sts in mod.assigns.items():
        for st in sts:
            v = getattr(st, "value", None)
            if isinstance(v, (ast.Dict,)) or (isinstance(v, ast.Call) and unparse(v.func).split(".")[-1] in ("dict", "OrderedDict", "defaultdict", "WeakValueDictionary")):
                for f in reach:
                    for n in f.own_nodes():
                        if isinstance(n, ast.Name) and n.id == name and not (f.module.parent.get(n) is st):
                            par = f.module.parent.get(n)
                            if isinstance(par, (ast.Subscript, ast.Compare, ast.Attribute)):
                                memo.append(f"{f.loc(n)}: module-level mapping `{name}` is consulted in {f.qname}: a digest memo keyed by value identifies equal values of different type "
                                            "and makes a signature depend on what was hashed earlier in the process")
    # local mappings of the hasher (or of the function its closures live in) keyed by the element being hashed
    def _is_map(v: Optional[ast.AST]) -> bool:
        return isinstance(v, ast.Dict) or (isinstance(v, ast.Call) and unparse(v.func).split(".")[-1] in ("dict", "OrderedDict", "defaultdict", "WeakValueDictionary"))
    for f in reach:
        maps = set()
        for n in ast.walk(f.node):
            if isinstance(n, ast.Assign) and _is_map(n.value):
                maps.update(t.id for t in n.targets if isinstance(t, ast.Name))
            elif isinstance(n, ast.AnnAssign) and isinstance(n.target, ast.Name) and _is_map(n.value):
                maps.add(n.target.id)
        if not maps:
            continue
        for g in ast.walk(f.node):
            if not isinstance(g, (ast.FunctionDef, ast.Lambda)):
                continue
            params = {a.arg for a in g.args.args + g.args.posonlyargs + g.args.kwonlyargs}
            for n in ast.walk(g):
                key = None
                if isinstance(n, ast.Subscript) and isinstance(n.value, ast.Name) and n.value.id in maps and isinstance(n.slice, ast.Name):
                    key, m_ = n.slice.id, n.value.id
                elif isinstance(n, ast.Compare) and len(n.ops) == 1 and isinstance(n.ops[0], (ast.In, ast.NotIn)) and isinstance(n.left, ast.Name) \
                        and isinstance(n.comparators[0], ast.Name) and n.comparators[0].id in maps:
                    key, m_ = n.left.id, n.comparators[0].id
                elif isinstance(n, ast.Call) and isinstance(n.func, ast.Attribute) and n.func.attr in ("get", "setdefault", "pop") and isinstance(n.func.value, ast.Name) \
                        and n.func.value.id in maps and n.args and isinstance(n.args[0], ast.Name):
                    key, m_ = n.args[0].id, n.func.value.id
                if key is not None and key in params and (f is outer or f in fam or any(g_.qname.startswith(f.qname + ".") for g_ in fam)):
                    memo.append(f"{f.loc(n)}: local mapping `{m_}` of {f.qname} is keyed by the value being hashed (`{key}`): the key identifies values that compare equal "
                                "(1 == 1.0 == True, 0.0 == -0.0): dds_hash([1, 1.0]) == dds_hash([1, 1])")
    if nond:
        rep.bad("C05.R2", mod.name, "no nondeterminism source in the value hasher", nond[0].split(":")[0], nond, "nondet", what="the value hash depends on the process / environment")
    else:
        rep.ok("C05.R2", mod.name, "no nondeterminism source in dds.fun_args", mod.relpath)
    if memo:
        rep.bad("C05.R2", mod.name, "no digest memo keyed by the hashed value", mod.relpath, sorted(set(memo))[:5], "memo", what="digests are memoised by value equality: equal values of different type collide")
    else:
        rep.ok("C05.R2", mod.name, "no memo of digests keyed by the hashed value (lru_cache / module-level dict)", mod.relpath)

    # ---- R3 / R6 ----------------------------------------------------------------------------
    n3 = 0
    dispatchers = []
    for _n, _b, bf in brs:
        if bf not in dispatchers:
            dispatchers.append(bf)
    # the size guard: a helper of the family that raises the coded error, or the same test written (expanded) in the branches
    len_checkers = [nf for nf in fam if raises_with_code(nf, "SEQUENCE_TOO_LONG") and nf not in dispatchers]
    inline_guards = [(nf, r) for nf in dispatchers for r in raises_with_code(nf, "SEQUENCE_TOO_LONG")]
    if not len_checkers and not inline_guards:
        rep.bad("C05.R6", outer.qname, "a size guard raising SEQUENCE_TOO_LONG exists", outer.loc(), ["no function of the value hasher raises DDSException(..., SEQUENCE_TOO_LONG)"], "no-guard",
                what="no size guard with a coded error")
    # the size limit the guard compares with is a validated option value
    rep.rule("C05.R9", "set_option stores a value only after its validation completed normally (the size guard compares len() with hash.max_sequence_size: a "
                       "refused value that was stored anyway turns every later hash into a low-level TypeError or a spurious SEQUENCE_TOO_LONG)")
    so = prog.func("dds._config.set_option")
    if so is None:
        raise AnchorError("dds._config.set_option not found")
    from .common import unfacade
    so = unfacade(ctx, so)
    socfg = cfg_of(so)
    vals = [c for c in so.own_nodes() if isinstance(c, ast.Call) and isinstance(c.func, ast.Attribute) and c.func.attr == "validate"]
    stores9 = [st for st in so.own_nodes() if isinstance(st, ast.Assign) and any(isinstance(t, ast.Subscript) for t in st.targets)]
    n9 = 0
    for st in stores9:
        n9 += 1
        desc = f"`{unparse(st, 40)}` runs only after the option's validation completed"
        w = dominated(ctx, so, st, [d for c in vals for d in done_nodes(socfg, c)]) if vals else [f"{so.loc()}: no validate(..) call in set_option"]
        if w is None:
            rep.ok("C05.R9", so.qname, desc, so.loc(st))
        else:
            rep.bad("C05.R9", so.qname, desc, so.loc(st), w, stmt_key(st), what="an option value is stored before (or without) being validated")
    rep.floor("C05.R9", n9, 1)
    # ... and what reset_option puts back is the option's default VALUE (the Option object itself, or its key, is not a value the size guard can compare)
    rep.rule("C05.R11", "reset_option stores `<option>.default` into the table of option values")
    ro = prog.func("dds._config.reset_option")
    if ro is None:
        raise AnchorError("dds._config.reset_option not found")
    ro = unfacade(ctx, ro)
    n11 = 0
    # the table of option values: the mapping that get_option answers from (a module-level dictionary, or an attribute of the registry object the functions delegate to)
    go = prog.func("dds._config.get_option")
    tables = set()

    def _ret_tables(g: Func, depth: int = 0) -> None:
        for r_ in g.own_nodes():
            if isinstance(r_, ast.Return) and isinstance(r_.value, ast.Subscript) and isinstance(r_.value.value, (ast.Name, ast.Attribute)):
                tables.add(unparse(r_.value.value))
            elif isinstance(r_, ast.Return) and isinstance(r_.value, ast.Call) and depth < 2:
                hs_, _ = prog.callees(g, r_.value, ctx._types)
                for h_ in hs_:
                    if h_.module.name.startswith("dds") and h_ is not g:
                        _ret_tables(h_, depth + 1)
    if go is not None:
        _ret_tables(go)
    stores11 = [st for st in ro.own_nodes() if isinstance(st, ast.Assign) and any(isinstance(t, ast.Subscript) and isinstance(t.value, (ast.Name, ast.Attribute))
                                                                                 and (not tables or unparse(t.value) in tables) for t in st.targets)]
    if tables and not stores11:
        n11 += 1
        others = [st for st in ro.own_nodes() if isinstance(st, (ast.Assign, ast.AugAssign))]
        rep.bad("C05.R11", ro.qname, f"reset_option stores the default into the table get_option reads ({sorted(tables)})", ro.loc(), [
            f"{ro.loc()}: no assignment `{sorted(tables)[0]}[key] = ...` in reset_option" + (f"; it assigns `{unparse(others[0], 60)}`" if others else ""),
            "after set_option('accept_list', False) and reset_option('accept_list') the option keeps the value that was set: list variables stay untracked, editing one changes no "
            "signature and the stale result is served"], "reset-no-store", what="reset_option does not put the default back into the table of option values")
    for st in stores11:
        if True:
            n11 += 1
            v = st.value
            if isinstance(v, ast.Name):
                from ..flow import flow_of as _fo
                ds = _fo(prog, ro).defs_of_use(v)
                if len(ds) == 1 and ds[0].value is not None:
                    v = ds[0].value
            desc = f"`{unparse(st, 50)}` puts the default value of the option back"
            if isinstance(v, ast.Attribute) and v.attr == "default":
                rep.ok("C05.R11", ro.qname, desc, ro.loc(st))
            else:
                rep.bad("C05.R11", ro.qname, desc, ro.loc(st), [f"{ro.loc(st)}: the stored value `{unparse(v, 50)}` is not `<option>.default`",
                        "after reset_option('hash.max_sequence_size') the size guard compares len(x) with an Option object: hashing any list / dict / dataclass ends with "
                        "TypeError ('>' not supported between 'int' and 'Option') instead of a signature or a coded error"], stmt_key(st),
                        what="reset_option stores something else than the option's default value")
    rep.floor("C05.R11", n11, 1)
    if rep.prop == "C05":
        # the arguments of a kept call reach the value hasher through the binders: a value that never reaches it (None passed by keyword
        # taken for "not passed", the whole keyword mapping hashed in place of one value) shares the signature of another value
        from . import c13 as _c13
        rep.rule("C05.R10", "as C13.R1-R9: each bound argument value is what the value hasher is given (positional, keyword, default; None and falsy values included)")
        before = len(rep.obligations)
        _c13.run(ctx)
        for o in rep.obligations[before:]:
            o.rule = "C05.R10/" + o.rule
        for k in [k for k in rep.floors if k.startswith("C13.")]:
            rep.floors["C05.R10/" + k] = rep.floors.pop(k)
    if rep.prop == "C05":
        from .common import kinds_not_confused as _knc
        rep.rule("C05.R17", "as C14.R12: the hash of a tracked variable is memoised under the canonical path of the variable, not under its local name (mypy kinds): two modules that "
                            "name a variable alike do not share the hash of one value")
        n17 = _knc(ctx, "C05.R17", ("dds.introspect", "dds._introspect_indirect", "dds._retrieve_objects", "dds._eval_ctx"),
                   "LIMIT = 2 in one accepted module and LIMIT = 3 in another: the second function is keyed with the hash of the first value; changing its LIMIT changes no signature")
        rep.floor("C05.R17", n17, 3)
    if rep.prop == "C05":
        rep.rule("C05.R18", "as C03.R9: hashing a supported value ends with a signature - the abstract evaluation of the value hasher on a table of values (non-ASCII text among them) gives "
                            "the pinned bytes, never a low-level exception")
        n18 = pinned_preimages(ctx, "C05.R18")
        rep.floor("C05.R18", n18, 25)
    if rep.prop == "C05":
        rep.rule("C05.R16", "two values that differ other than by the documented identifications get different signatures: the pre-images of an integer, a float and None are not "
                            "the pre-image of a string (abstract evaluation of the value hasher on pairs of values of different types)")
        n16 = cross_type_distinct(ctx, "C05.R16")
        rep.floor("C05.R16", n16, 4)
    if rep.prop == "C05":
        from .c01 import composer_components
        rep.rule("C05.R15", "as C01.R1: the values of the tracked variables and of the arguments (hashed by the value hasher) are part of every signature they can influence - the "
                            "return signature of the function and the call-site context of the calls it makes: two values of a tracked variable never share the key of a nested keep")
        composer_components(ctx, "C05.R15")
    if rep.prop == "C05":
        from .c01 import tracked_type_table
        rep.rule("C05.R12", "as C01.R4: tracked variables of every supported plain type reach the value hasher (a type classified as external is hashed by its name only: "
                            "two values of the variable share a signature), each structural option governs its own types")
        tracked_type_table(ctx, "C05.R12")
    # ---- R13: the dataclass branch is for instances ---------------------------------------------------------------------------
    rep.rule("C05.R13", "the dataclass branch of the value hasher applies to instances only (`dataclasses.is_dataclass` is also true for the class itself, whose fields "
                        "have no value: getattr raises AttributeError instead of the coded TYPE_NOT_SUPPORTED)")
    n13 = 0
    for names_, br_, bf_ in brs:
        if "<dataclass>" not in names_:
            continue
        n13 += 1
        vp = value_param(bf_, ctx)
        t_ = br_.test
        atoms_ = t_.values if isinstance(t_, ast.BoolOp) and isinstance(t_.op, ast.And) else [t_]
        inst_only = any(
            (isinstance(a_, ast.UnaryOp) and isinstance(a_.op, ast.Not) and isinstance(a_.operand, ast.Call) and unparse(a_.operand.func) in ("isinstance", "inspect.isclass")
             and a_.operand.args and unparse(a_.operand.args[0]) == vp and (unparse(a_.operand.func) == "inspect.isclass" or unparse(a_.operand.args[1]) == "type"))
            for a_ in atoms_) or any(isinstance(x, ast.Call) and unparse(x.func).endswith("is_dataclass") and x.args and unparse(x.args[0]) == f"type({vp})" for x in ast.walk(t_))
        # an earlier branch that sends classes away (raise / return) also does
        earlier = any(isinstance(st, ast.If) and st.lineno < br_.lineno and any(isinstance(x, ast.Call) and unparse(x.func) in ("isinstance", "inspect.isclass") and x.args
                      and unparse(x.args[0]) == vp and (unparse(x.func) == "inspect.isclass" or (len(x.args) > 1 and unparse(x.args[1]) == "type")) for x in ast.walk(st.test))
                      for st in bf_.node.body)
        desc = "the dataclass branch is taken for dataclass instances, not for dataclass types"
        if inst_only or earlier:
            rep.ok("C05.R13", bf_.qname, desc, bf_.loc(br_))
        else:
            rep.bad("C05.R13", bf_.qname, desc, bf_.loc(br_), [f"{bf_.loc(br_)}: `{unparse(t_, 60)}` is true for a dataclass TYPE as well",
                    "dds_hash(SomeDataclass) (a class passed as argument / kept in a variable) reads the fields on the class: AttributeError, a low-level exception where "
                    "TYPE_NOT_SUPPORTED is due"], "dataclass-type", what="a dataclass type given as a value makes the hasher raise AttributeError")
    rep.floor("C05.R13", n13, 1)

    # ---- R14: an option that may be None is tested before it is compared -------------------------------------------------------------
    rep.rule("C05.R14", "an option whose declared types include NoneType is compared (<, >) only where it was seen not to be None: `hash.max_sequence_size` accepts None, "
                        "and `len(x) > None` is a TypeError")
    n14 = 0
    cfgmod = prog.modules.get("dds._config")
    none_keys = set()
    for c_ in (ast.walk(cfgmod.tree) if cfgmod is not None else []):
        if isinstance(c_, ast.Call) and unparse(c_.func).split(".")[-1] in ("Option", "_flag_option"):
            kws = {k.arg: k.value for k in c_.keywords}
            key_ = kws.get("key")
            tys = kws.get("types")
            if isinstance(key_, ast.Constant) and tys is not None and "type(None)" in unparse(tys, 200):
                none_keys.add(key_.value)
    # holders of the option's value: the local it is read into, the parameters it is handed to, the attributes it is stored in
    holders: List[Tuple[str, Any, str, str, str]] = []   # (kind, func-or-class, text, option key, where)
    for f_ in prog.funcs.values():
        if not f_.module.name.startswith("dds") or f_.module is cfgmod:
            continue
        for st in f_.own_nodes():
            if isinstance(st, (ast.Assign, ast.AnnAssign)) and isinstance(st.value, ast.Call) and unparse(st.value.func).split(".")[-1] == "get_option" and st.value.args \
                    and isinstance(st.value.args[0], ast.Constant) and st.value.args[0].value in none_keys:
                tg = st.targets[0] if isinstance(st, ast.Assign) else st.target
                if isinstance(tg, ast.Name):
                    holders.append(("local", f_, tg.id, st.value.args[0].value, f_.loc(st)))
                elif isinstance(tg, ast.Attribute) and isinstance(tg.value, ast.Name) and tg.value.id == "self" and f_.cls is not None:
                    holders.append(("attr", f_.cls, unparse(tg), st.value.args[0].value, f_.loc(st)))
    seen_h = set()
    work = list(holders)
    holders = []
    while work and len(seen_h) < 40:
        h_ = work.pop()
        key_h = (h_[0], getattr(h_[1], "qname", None), h_[2])
        if key_h in seen_h:
            continue
        seen_h.add(key_h)
        holders.append(h_)
        if h_[0] != "local":
            continue
        f0, v0 = h_[1], h_[2]
        for g_ in [f0] + list(f0.nested.values()):
            for y in g_.own_nodes():
                # stored in an attribute of the object
                if isinstance(y, (ast.Assign, ast.AnnAssign)) and isinstance(y.value, ast.Name) and y.value.id == v0:
                    t_ = y.targets[0] if isinstance(y, ast.Assign) else y.target
                    if isinstance(t_, ast.Attribute) and isinstance(t_.value, ast.Name) and t_.value.id == "self" and g_.cls is not None:
                        work.append(("attr", g_.cls, unparse(t_), h_[3], h_[4]))
                # handed to a function / constructor of the package
                if isinstance(y, ast.Call):
                    pos = [i_ for i_, a_ in enumerate(y.args) if isinstance(a_, ast.Name) and a_.id == v0]
                    kw_ = [k_.arg for k_ in y.keywords if isinstance(k_.value, ast.Name) and k_.value.id == v0 and k_.arg]
                    if not pos and not kw_:
                        continue
                    fs_, _ = prog.callees(g_, y, ctx._types)
                    d_ = prog.dotted(g_, y.func) or ""
                    k_cls = prog.cls(d_) if d_ else None
                    if k_cls is not None and "__init__" in k_cls.methods:
                        fs_ = [k_cls.methods["__init__"]]
                    for callee in fs_:
                        if not callee.module.name.startswith("dds"):
                            continue
                        ps_ = [p_ for p_ in callee.positional_params()]
                        off = 1 if ps_ and ps_[0] in ("self", "cls") and (k_cls is not None or isinstance(y.func, ast.Attribute)) else 0
                        for i_ in pos:
                            if i_ + off < len(ps_):
                                work.append(("local", callee, ps_[i_ + off], h_[3], h_[4]))
                        for nm in kw_:
                            if nm in callee.params:
                                work.append(("local", callee, nm, h_[3], h_[4]))
    for kind_h, owner, var, optkey, where_h in holders:
        if kind_h == "local":
            scopes_ = [owner] + list(owner.nested.values())
        else:
            scopes_ = [m__ for m__ in owner.methods.values()] + [nf_ for m__ in owner.methods.values() for nf_ in m__.nested.values()]
        if True:
            if True:
                for g_ in scopes_:
                    for cmp_ in g_.own_nodes():
                        if isinstance(cmp_, ast.Compare) and any(isinstance(o, (ast.Lt, ast.LtE, ast.Gt, ast.GtE)) for o in cmp_.ops) and any(
                                isinstance(x, (ast.Name, ast.Attribute)) and unparse(x) == var for x in [cmp_.left] + list(cmp_.comparators)):
                            n14 += 1
                            par = g_.module.parent.get(cmp_)
                            guarded = isinstance(par, ast.BoolOp) and isinstance(par.op, ast.And) and any(
                                isinstance(v_, ast.Compare) and isinstance(v_.ops[0], ast.IsNot) and unparse(v_.left) == var and unparse(v_.comparators[0]) == "None"
                                for v_ in par.values[:par.values.index(cmp_)])
                            if not guarded:
                                gcfg = cfg_of(g_)
                                nn = [b for b in gcfg.nodes if b.kind == "branch" and isinstance(b.ast, ast.Compare) and unparse(b.ast.left) == var and unparse(b.ast.comparators[0]) == "None"
                                      and ((isinstance(b.ast.ops[0], ast.IsNot) and b.label == "T") or (isinstance(b.ast.ops[0], ast.Is) and b.label == "F"))]
                                guarded = bool(nn) and dominated(ctx, g_, cmp_, nn) is None
                            desc = f"`{unparse(cmp_, 40)}` compares the option `{optkey}` only when it is not None"
                            if guarded:
                                rep.ok("C05.R14", g_.qname, desc, g_.loc(cmp_))
                            else:
                                rep.bad("C05.R14", g_.qname, desc, g_.loc(cmp_), [f"{where_h}: `{var}` holds the value of an option that accepts None",
                                        f"{g_.loc(cmp_)}: `{unparse(cmp_, 50)}` raises TypeError when it is None: after dds.set_option('{optkey}', None) hashing any list / dict / "
                                        "dataclass ends with a low-level exception"], stmt_key(cmp_), what="an option that accepts None is compared without a None test")
    rep.floor("C05.R14", n14, 1)
    rep.rule("C05.R8", "the digest helpers hash their argument itself (an encode at most between the parameter and hashlib)")
    n8 = algo_preimage_rule(ctx, "C05.R8")
    rep.floor("C05.R8", n8, 2)
    # the error path is itself well typed: building the message of the coded exception cannot raise a low-level TypeError
    rep.rule("C05.R7", "no type error (mypy: arg-type / operator / call-arg / index / union-attr) in the statements that build and raise the coded "
                       "size error, nor in the nested helpers they call")
    import re as _re
    for g in len_checkers + [nf for nf in dispatchers if raises_with_code(nf, "SEQUENCE_TOO_LONG")]:
        for r in raises_with_code(g, "SEQUENCE_TOO_LONG"):
            region = [(g, r.lineno, getattr(r, "end_lineno", r.lineno))]
            for c in ast.walk(r):
                hf = fam_call(ctx, g, c)
                if hf is not None:
                    region.append((hf, hf.node.lineno, getattr(hf.node, "end_lineno", hf.node.lineno)))
            errs = []
            for e in getattr(ctx.types, "errors", []):
                m_ = _re.match(r"(.*?):(\d+): error: (.*)\[(arg-type|operator|call-arg|index|union-attr|call-overload)\]\s*$", e)
                if m_ and m_.group(1).replace("\\", "/").endswith(g.module.relpath):
                    ln = int(m_.group(2))
                    if any(lo <= ln <= hi for (_f, lo, hi) in region):
                        errs.append(e)
            desc = "the statements that build the SEQUENCE_TOO_LONG error are well typed"
            if errs:
                rep.bad("C05.R7", g.qname, desc, g.loc(r), errs + ["the hint of the offending position holds list indices (int) next to names: an ill-typed string operation on it raises "
                        "TypeError, which replaces the coded DDSException for an over-long sequence nested under a list / tuple index"], "error-path-typed",
                        what="building the size-limit error message raises a low-level TypeError")
            else:
                rep.ok("C05.R7", g.qname, desc + f" ({len(region)} region(s))", g.loc(r))
    for names, br, h in brs:
        if not (set(names) & {"list", "tuple", "dict", "OrderedDict", "<dataclass>"}):
            continue
        n3 += 1
        label = "/".join(names)
        cfg = cfg_of(h)
        wit: List[str] = []
        comps = [n for n in ast.walk(br) if isinstance(n, (ast.ListComp, ast.GeneratorExp))
                 and any(fam_call(ctx, h, x) is not None for x in ast.walk(n.elt))]
        for c in comps:
            for g in c.generators:
                if g.ifs:
                    wit.append(f"{h.loc(c)}: comprehension filter `{unparse(g.ifs[0])}` drops elements")
                it = g.iter
                if isinstance(it, ast.Subscript) and isinstance(it.slice, ast.Slice):
                    wit.append(f"{h.loc(c)}: only a slice of the value is iterated")
                if isinstance(it, ast.Call) and unparse(it.func) in ("sorted", "set", "reversed", "frozenset"):
                    wit.append(f"{h.loc(c)}: `{unparse(it.func)}` between the value and the joined pre-image changes / forgets the order")
            # every target variable must reach a recursive hasher call
            targets = {t.id for g in c.generators for t in ast.walk(g.target) if isinstance(t, ast.Name)}
            used_in_rec = set()
            for call in ast.walk(c.elt):
                if fam_call(ctx, h, call) is not None:
                    for a in call.args:
                        used_in_rec |= {x.id for x in ast.walk(a) if isinstance(x, ast.Name)}
            zipped_hash_pairs = "<dataclass>" in names
            missing = {t for t in targets if t not in used_in_rec and not t.startswith("_")}
            # index variables of enumerate are path hints only
            for g in c.generators:
                if isinstance(g.iter, ast.Call) and unparse(g.iter.func) == "enumerate" and isinstance(g.target, ast.Tuple) and isinstance(g.target.elts[0], ast.Name):
                    missing.discard(g.target.elts[0].id)
            if missing:
                wit.append(f"{h.loc(c)}: component(s) {sorted(missing)} of each element never reach the recursive hasher: values differing only there collide")
        for call in ast.walk(br):
            if isinstance(call, ast.Call) and isinstance(call.func, ast.Attribute) and call.func.attr == "join" and isinstance(call.func.value, ast.Constant):
                sep = call.func.value.value
                if sep == "" or all(ch in "0123456789abcdef" for ch in sep):
                    wit.append(f"{h.loc(call)}: separator {sep!r} is inside the alphabet of the joined hex digests: [x, yz] and [xy, z] style collisions")
            if isinstance(call, ast.Call) and unparse(call.func) in ("sorted", "set", "frozenset", "reversed") and "list" in names:
                wit.append(f"{h.loc(call)}: `{unparse(call.func)}` applied in the sequence branch")
        if "<dataclass>" in names:
            wit += dataclass_field_source(h, br)
        desc = f"branch {label}: whole value iterated, every component hashed, order kept"
        if wit:
            rep.bad("C05.R3", h.qname, desc, h.loc(br), wit, f"container:{label}", what=f"the {label} branch drops or reorders components")
        else:
            rep.ok("C05.R3", h.qname, desc, h.loc(br))
        # R6: size guard precedes any comprehension / recursion of this branch
        guards = [n for n in ast.walk(br) if fam_call(ctx, h, n) in len_checkers and isinstance(n, ast.Call)]
        iters = comps + [n for n in ast.walk(br) if fam_call(ctx, h, n) is not None and n not in guards]
        desc6 = f"branch {label}: the length check precedes the iteration"
        inl = [r for (nf, r) in inline_guards if nf is h and any(r is x for x in ast.walk(br))]
        if not guards and not inl:
            rep.bad("C05.R6", h.qname, desc6, h.loc(br), ["no call of the size guard in this branch: a huge container is walked entirely"], f"guard:{label}", what=f"no size guard in the {label} branch")
        else:
            doms = [d for g in guards for d in done_nodes(cfg, g)]
            for r in inl:
                doms += pass_outcomes(cfg, h.module, r)[0]
            inl_nodes = set()
            for r in inl:
                for a_ in ancestors(h.module, r):
                    if isinstance(a_, ast.If):  # the guard itself: its test and the statements that build and raise the error
                        inl_nodes |= {id(x) for x in ast.walk(a_.test)} | {id(x) for b_ in a_.body for x in ast.walk(b_)}
                        break
            iters = [it for it in iters if id(it) not in inl_nodes]
            bad = None
            for it in iters:
                w = dominated(ctx, h, it, doms)
                if w is not None:
                    bad = (it, w)
                    break
            if bad is None:
                rep.ok("C05.R6", h.qname, desc6, h.loc((guards + inl)[0]))
            else:
                rep.bad("C05.R6", h.qname, desc6, h.loc(bad[0]), bad[1], f"guard-order:{label}", what=f"the {label} branch iterates before checking the length")
    for nf in fam:
        if nf in dispatchers or nf in len_checkers:
            continue
        rcalls = [c for c in nf.own_nodes() if fam_call(ctx, nf, c) is not None]
        rets = [r for r in nf.own_nodes() if isinstance(r, ast.Return) and r.value is not None]
        nf_params = nf.positional_params()
        if not rcalls or not rets or len(nf_params) < 2 or not any(rc in list(ast.walk(r.value)) for r in rets for rc in rcalls):
            continue
        n3 += 1
        used = set()
        for r in rets:
            for c in ast.walk(r.value):
                if fam_call(ctx, nf, c) is not None and hashed_arg(ctx, nf, c) is not None:
                    used |= {x.id for x in ast.walk(hashed_arg(ctx, nf, c)) if isinstance(x, ast.Name)}
        missing = [p_ for p_ in nf_params if p_ not in used]
        desc = f"helper {nf.name}: every component it is given is hashed into what it returns"
        if missing:
            rep.bad("C05.R3", nf.qname, desc, nf.loc(), [f"parameter(s) {missing} never reach the recursive hasher in the returned value: mappings that differ only there collide ({{a: 1}} / {{b: 1}})"],
                    f"helper:{nf.name}", what=f"{nf.name} drops {missing} from the pre-image")
        else:
            rep.ok("C05.R3", nf.qname, desc, nf.loc())
    rep.floor("C05.R3", n3, 4)

    # ---- R3b: the text form used for dates / times is the type-qualified one
    for names, br, h in brs:
        if not any(x.startswith("datetime.") for x in names):
            continue
        n3 += 1
        convs = [n for n in ast.walk(br) if isinstance(n, ast.Call) and unparse(n.func) in ("repr", "str", "format") or (isinstance(n, ast.Call) and isinstance(n.func, ast.Attribute)
                 and n.func.attr in ("isoformat", "__str__", "strftime", "total_seconds", "timestamp"))]
        desc = "dates, times, durations and time zones are hashed from a text form that names their type"
        bad = [c for c in convs if unparse(c.func) != "repr"]
        if convs and not bad:
            rep.ok("C05.R3", h.qname, desc, h.loc(br))
        elif bad:
            rep.bad("C05.R3", h.qname, desc, h.loc(bad[0]), [f"{h.loc(bad[0])}: `{unparse(bad[0], 50)}` on a branch shared by {names}",
                    "str() / isoformat() are not injective across these types: time(10, 30) and timedelta(hours=10, minutes=30) both give '10:30:00'; two time zones with one name collide"],
                    "datetime-text", what="date / time values of different types share a text form and collide")
        else:
            rep.unknown("C05.R3", h.qname, "date / time branch: conversion not recognised", h.loc(br))
    # ---- R4 boundary pre-images ------------------------------------------------------------------
    def oracle(name, args, kwargs, node):
        if name.endswith("get_option"):
            return Const(10000)
        if name.endswith("PyHash") and args:
            return args[0]
        if name.endswith("dataclasses.fields") and args and isinstance(args[0], Const):
            return Const([]) if not dataclasses.fields(args[0].v) else TOP
        return NOT_HANDLED

    boundary = [("None", None), ('""', ""), ("[]", []), ("()", ()), ("{}", {}), ("OrderedDict()", collections.OrderedDict()), ("empty dataclass", _EmptyDC())]
    pre: Dict[str, Any] = {}
    und = []
    for label, val in boundary:
        ev = Evaluator(prog, oracle=oracle, max_depth=20, instance_modules=[outer.module.name])
        try:
            outs = ev.run(outer, [Const(val)])
        except Exception as e:  # Unsupported syntax
            und.append(f"{label}: {type(e).__name__}: {e}")
            continue
        rets = [o for o in outs if o.kind == "return"]
        vals = {repr(o.value.pre) if isinstance(o.value, Digest) else repr(o.value) for o in rets}
        if len(vals) == 1 and rets and isinstance(rets[0].value, Digest) and isinstance(rets[0].value.pre, Const):
            pre[label] = rets[0].value.pre.v
        else:
            und.append(f"{label}: outcomes {sorted(vals)[:3]} / raises {[str(o.exc) for o in outs if o.kind == 'raise'][:2]}")
    identified = {frozenset(("[]", "()")), frozenset(("{}", "OrderedDict()"))}
    coll = []
    labels = list(pre)
    for i, a in enumerate(labels):
        for b in labels[i + 1:]:
            if pre[a] == pre[b] and frozenset((a, b)) not in identified:
                coll.append(f"dds_hash({a}) == dds_hash({b}): both digest the pre-image {pre[a]!r}")
    desc = "boundary values of different types have pairwise distinct pre-images (list = tuple and dict = OrderedDict are identified)"
    if coll:
        rep.bad("C05.R4", h.qname, desc, h.loc(), coll, "boundary", what="empty containers / empty string / None collide")
    elif und:
        rep.unknown("C05.R4", h.qname, "hasher uses syntax outside the abstract evaluator", h.loc(), und[:4])
    else:
        rep.ok("C05.R4", h.qname, desc + f": {pre}", h.loc())
    rep.floor("C05.R4", len(pre), 6)

    from .roles import is_digest_call as _is_dc
    # ---- R5 numeric encodings ---------------------------------------------------------------------
    widths: Dict[str, List[int]] = {}
    tags: List[Tuple[str, bytes, str]] = []
    other: List[str] = []
    for names, br, bf in brs:
        if not (set(names) & {"int", "float"}):
            continue
        label = "/".join(names)
        for n in ast.walk(br):
            if _is_dc(ctx, bf, n) and n.args:
                for pf, a in preimages(ctx, bf, n.args[0]):
                    if isinstance(a, ast.Call) and (prog.dotted(pf, a.func) or "") == "struct.pack" and a.args and isinstance(a.args[0], ast.Constant):
                        widths.setdefault(label, []).append(struct.calcsize(a.args[0].value))
                    elif isinstance(a, ast.BinOp) and isinstance(a.op, ast.Add) and _const_bytes(ctx, pf, a.left) is not None:
                        tags.append((label, _const_bytes(ctx, pf, a.left), pf.loc(a)))
                    else:
                        other.append(f"{pf.loc(a)}: numeric pre-image `{unparse(a, 60)}` is neither a fixed-width pack nor a tagged encoding")
    allw = sorted({w for ws in widths.values() for w in ws})
    wit = []
    per = {k: sorted(set(v)) for k, v in widths.items()}
    flat = [w for v in per.values() for w in v]
    if len(flat) != len(set(flat)):
        wit.append(f"two numeric branches use the same fixed width {per}: equal byte patterns of different types collide")
    for label, tag, where in tags:
        if len(tag) <= max(allw or [0]):
            wit.append(f"{where}: tag {tag!r} is not longer than the fixed widths {allw}: a tagged value can equal a packed number")
    wit += other
    desc = f"numeric encodings are disjoint (fixed widths {per}, tags {[t[1] for t in tags]})"
    if wit:
        rep.bad("C05.R5", h.qname, desc, h.loc(), wit + ["e.g. a bare two's-complement encoding of 2**62 is the 8 bytes of the float 2.0"], "numeric", what="numeric encodings of different types can coincide")
    else:
        rep.ok("C05.R5", h.qname, desc, h.loc())
    if ctx.report.prop == "C05":
        from .common import share_rules as _share8
        _share8(ctx, "C13", "C05.R19", ['C13.R15'], 'the inputs of the calling function are part of the call-site context hashed into a nested call: two different argument values of the caller never share the signature of the nested kept call (collision-free inputs)')


PINNED_VALUES = [
    ("0", 0), ("1", 1), ("-1", -1), ("2**31-1", 2**31 - 1), ("-2**31", -2**31), ("2**31", 2**31), ("-2**31-1", -2**31 - 1), ("2**63", 2**63), ("-2**63", -2**63), ("10**30", 10**30),
    ("0.0", 0.0), ("-0.0", -0.0), ("1.5", 1.5), ("True", True), ("False", False), ('""', ""), ('"a"', "a"), ('"\u00e9"', "\u00e9"), ('"1"', "1"), ("None", None),
    ("[]", []), ("[1, 2]", [1, 2]), ("(1, 2)", (1, 2)), ("[[1], 2]", [[1], 2]), ("[1, [2, 'x']]", [1, [2, "x"]]), ('{"a": 1}', {"a": 1}), ("{1: 'b'}", {1: "b"}),
    ('{"a": 1, "b": None}', {"a": 1, "b": None}), ("{}", {}), ('[None, "", 0]', [None, "", 0]),
]


def abstract_preimage(ctx: Ctx, val: Any) -> Tuple[Optional[bytes], str]:
    """the bytes that dds_hash digests for a value, by abstract evaluation of its source (inner digests folded); (None, reason) when undecided"""
    prog = ctx.prog
    outer = prog.func("dds.fun_args.dds_hash")
    if outer is None:
        raise AnchorError("dds.fun_args.dds_hash not found")

    def oracle(name, args, kwargs, node):
        if name.endswith("get_option"):
            return Const(10000)
        if name.endswith("PyHash") and args:
            return args[0]
        return NOT_HANDLED
    ev = Evaluator(prog, oracle=oracle, max_depth=30, instance_modules=[outer.module.name])
    try:
        outs = ev.run(outer, [Const(val)])
    except Exception as e:
        return None, f"{type(e).__name__}: {e}"
    rets = [o for o in outs if o.kind == "return"]
    pres = {o.value.pre.v for o in rets if isinstance(o.value, Digest) and isinstance(o.value.pre, Const) and isinstance(o.value.pre.v, (bytes, bytearray))}
    if len(pres) == 1 and len(rets) == len(outs) and all(isinstance(o.value, Digest) and isinstance(o.value.pre, Const) for o in rets):
        return bytes(next(iter(pres))), ""
    low = [o for o in outs if o.kind == "raise" and o.exc is not None and not str(getattr(o.exc, "exc_type", "")).endswith("DDSException")]
    if low and len(low) == len(outs):
        return None, f"raises {getattr(low[0].exc, 'exc_type', '?')}: {str(low[0].exc)[:120]}"
    return None, f"outcomes {[repr(o.value) if o.kind == 'return' else str(o.exc) for o in outs][:3]}"


def pinned_preimages(ctx: Ctx, rule: str) -> int:
    """the bytes digested for each value of a fixed table are the pinned ones (ddsverif/pinned_hashes.py, computed from the pinned
    tree by the same abstract evaluation): signatures persisted by earlier runs or by collaborators stay addressable"""
    from ..pinned_hashes import PINNED
    rep = ctx.report
    outer = ctx.prog.func("dds.fun_args.dds_hash")
    n = 0
    bad, und = [], []
    for label, val in PINNED_VALUES:
        want = PINNED.get(label)
        if want is None:
            continue
        got, why = abstract_preimage(ctx, val)
        if got is None and why.startswith("raises "):
            n += 1
            bad.append(f"dds_hash({label}) ends in a low-level exception: {why[7:]}")
            continue
        if got is None:
            und.append(f"dds_hash({label}): {why}")
            continue
        n += 1
        if got.hex() != want:
            bad.append(f"dds_hash({label}) digests {got!r}; the pinned signature digests {bytes.fromhex(want)!r}")
    desc = f"the {len(PINNED_VALUES)} values of the pinned table are digested from the pinned bytes"
    if bad:
        rep.bad(rule, outer.qname, desc, outer.loc(), bad[:6] + ["every signature that depends on such a value changes: blobs persisted by earlier runs or by collaborators are no longer "
                "addressable (each run is a miss) and pinned signatures drift"], "pinned-preimages", what="the encoding of a value differs from the pinned one: persisted signatures drift")
    elif und:
        rep.unknown(rule, outer.qname, "value hasher uses syntax outside the abstract evaluator", outer.loc(), und[:4])
    else:
        rep.ok(rule, outer.qname, desc, outer.loc())
    return n


PINNED_PAIR_LISTS = [
    ("one pair", [("body", "x0")]),
    ("two pairs", [("body", "x1"), ("arg_a", "y")]),
    ("three pairs", [("a", "1"), ("b", "2"), ("c", "3")]),
    # combinations whose exclusive-or starts with zero digits (the rendering of the number is part of the signature)
    ("leading zeros 1", [("body", "x12"), ("arg_a", "y")]),
    ("leading zeros 2", [("body", "x114"), ("arg_a", "y")]),
    ("leading zeros 3", [("body", "x295"), ("arg_a", "y"), ("body", "x295"), ("arg_a", "y"), ("body", "x295"), ("arg_a", "y")]),
]


def abstract_combination(ctx: Ctx, pairs: Any) -> Tuple[Optional[str], str]:
    """the text that the order-insensitive combiner returns for a list of (key, signature) pairs, by abstract evaluation of its source"""
    f = ctx.prog.func("dds.fun_args.dds_hash_commut")
    if f is None:
        raise AnchorError("dds.fun_args.dds_hash_commut not found")
    try:
        outs = Evaluator(ctx.prog, max_depth=30).run(f, [Const([tuple(p) for p in pairs])])
    except Exception as e:
        return None, f"{type(e).__name__}: {e}"
    vals = set()
    for o in outs:
        v = o.value
        if isinstance(v, Digest):
            v = Evaluator.fold_digest(v)
        if o.kind == "return" and isinstance(v, Const) and isinstance(v.v, str):
            vals.add(v.v)
        else:
            return None, f"outcome {o.kind} {o.value!r}"
    if len(vals) == 1:
        return next(iter(vals)), ""
    return None, f"outcomes {sorted(vals)}"


def pinned_combinations(ctx: Ctx, rule: str) -> int:
    """the combiner gives, for a fixed table of pair lists, the pinned texts (ddsverif/pinned_hashes.py): the rendering of the combined number - digits,
    case, width - is part of every signature that has more than one component"""
    from ..pinned_hashes import PINNED_COMBINED
    rep = ctx.report
    f = ctx.prog.func("dds.fun_args.dds_hash_commut")
    n = 0
    bad, und = [], []
    for label, pairs in PINNED_PAIR_LISTS:
        want = PINNED_COMBINED.get(label)
        if want is None:
            continue
        got, why = abstract_combination(ctx, pairs)
        if got is None:
            und.append(f"dds_hash_commut({label}): {why}")
            continue
        n += 1
        if got != want:
            bad.append(f"dds_hash_commut({label}) gives {got!r}; pinned {want!r}")
    desc = f"the {len(PINNED_PAIR_LISTS)} pair lists of the pinned table are combined to the pinned signatures"
    if bad:
        rep.bad(rule, f.qname, desc, f.loc(), bad[:4] + ["the signature is the key of the blob and is hashed (as text) into the signatures of the callers: results persisted under the "
                "pinned rendering by earlier runs or by collaborators are missed and recomputed"], "pinned-combinations", what="the combined signature is rendered differently from the pinned one: persisted signatures drift")
    elif und:
        rep.unknown(rule, f.qname, "combiner uses syntax outside the abstract evaluator", f.loc(), und[:4])
    else:
        rep.ok(rule, f.qname, desc, f.loc())
    return n


def no_module_memo(ctx: Ctx, rule: str, what: str) -> int:
    """no function of the hashing / binding module consults a module-level mutable mapping (a memo that outlives the evaluation:
    keyed by value it identifies equal values of different types, keyed by name it survives the redefinition of what it describes)"""
    rep = ctx.report
    prog = ctx.prog
    mod = prog.module("dds.fun_args")
    memo: List[str] = []
    n = 0
    for name, sts in mod.assigns.items():
        for st in sts:
            v = getattr(st, "value", None)
            if isinstance(v, (ast.Dict,)) or (isinstance(v, ast.Call) and unparse(v.func).split(".")[-1] in ("dict", "OrderedDict", "defaultdict", "WeakValueDictionary", "WeakKeyDictionary")):
                n += 1
                for f in [g for g in prog.funcs.values() if g.module is mod]:
                    for x in f.own_nodes():
                        if isinstance(x, ast.Name) and x.id == name:
                            par = f.module.parent.get(x)
                            if isinstance(par, (ast.Subscript, ast.Compare, ast.Attribute)):
                                memo.append(f"{f.loc(x)}: module-level mapping `{name}` is consulted in {f.qname}")
    desc = "no module-level mutable mapping is consulted by the hashing / binding functions"
    if memo:
        rep.bad(rule, mod.name, desc, memo[0].split(":")[0] + ":" + memo[0].split(":")[1], sorted(set(memo))[:5] + [what], "module-memo",
                what="a process-wide memo is consulted while binding / hashing arguments")
    else:
        rep.ok(rule, mod.name, desc + f" ({n} module-level mapping(s))", mod.relpath)
    return n


def falsy_distinct(ctx: Ctx, rule: str) -> int:
    """None and the falsy values of different types are digested from different bytes (a binding of 0 / "" / () / None is not another one)"""
    rep = ctx.report
    outer = ctx.prog.func("dds.fun_args.dds_hash")
    vals = [("None", None), ("0", 0), ("0.0", 0.0), ('""', ""), ("[]", []), ("{}", {}), ("1", 1), ('"0"', "0")]
    pre: Dict[str, bytes] = {}
    und = []
    for label, v in vals:
        got, why = abstract_preimage(ctx, v)
        if got is None:
            und.append(f"dds_hash({label}): {why}")
        else:
            pre[label] = got
    coll = [f"dds_hash({a}) == dds_hash({b}): both digest {pre[a]!r}" for i, a in enumerate(pre) for b in list(pre)[i + 1:] if pre[a] == pre[b]]
    desc = f"None and the falsy values {[l for l, _ in vals]} have pairwise distinct pre-images"
    if coll:
        rep.bad(rule, outer.qname, desc, outer.loc(), coll + ["after dds.keep(p, f, 0) the call dds.keep(p, f, None) is served the result computed for 0"], "falsy",
                what="bindings that differ only by falsy values share a signature")
    elif und:
        rep.unknown(rule, outer.qname, "value hasher uses syntax outside the abstract evaluator", outer.loc(), und[:4])
    else:
        rep.ok(rule, outer.qname, desc, outer.loc())
    return len(pre)


def _const_bytes(ctx: Ctx, h: Func, e: ast.AST):
    """bytes constant of an expression (literal, or a module-level constant name)"""
    from ..absint import Env
    try:
        v = Evaluator(ctx.prog).eval(e, Env(), h)
    except Exception:
        return None
    return v.v if isinstance(v, Const) and isinstance(v.v, bytes) else None


def _used_as_hashed_value(c: ast.AST, name: str, rec_names) -> bool:
    """the variable is itself an already computed hash that is embedded (zip(names, vals) style)"""
    return False


def _range_guard(ctx: Ctx, h: Func, call: ast.Call, var: str, lo: Optional[int], hi: Optional[int]) -> Tuple[bool, List[str]]:
    cfg = cfg_of(h)
    ev = Evaluator(ctx.prog)
    from ..absint import Env

    for b in cfg.nodes:
        if b.kind != "branch" or b.label != "T" or not isinstance(b.ast, ast.Compare):
            continue
        c = b.ast
        operands = [c.left] + list(c.comparators)
        if not any(isinstance(o, ast.Name) and o.id == var for o in operands):
            continue
        # lower <= var < upper  (or <=)
        try:
            vals = [ev.eval(o, Env(), h) if not (isinstance(o, ast.Name) and o.id == var) else "VAR" for o in operands]
        except Exception:
            continue
        if len(vals) == 3 and vals[1] == "VAR" and isinstance(vals[0], Const) and isinstance(vals[2], Const):
            lo_g = vals[0].v + (1 if isinstance(c.ops[0], ast.Lt) else 0)
            hi_g = vals[2].v + (1 if isinstance(c.ops[1], ast.LtE) else 0)
            if all(isinstance(o, (ast.Lt, ast.LtE)) for o in c.ops) and lo is not None and lo_g >= lo and hi_g <= hi:
                if all(cfg.dominated_by(t, [b]) is None for t in cfg.nodes_of(call)):
                    return True, []
                return False, [f"{h.loc(c)}: range test `{unparse(c)}` does not dominate the call"]
            return False, [f"{h.loc(c)}: range test `{unparse(c)}` admits values outside [{lo}, {hi})"]
    # enclosing try converting to a DDSException
    return False, [f"{h.loc(call)}: no dominating range test on `{var}`"]


def dict_order_insensitive(ctx: Ctx, rule: str) -> int:
    """The branch of the value hasher that takes plain dictionaries gives equal dictionaries one signature: the items are put in a canonical order (sorted)
    or combined by the order-insensitive combiner.  Hashing them in iteration order gives `{'a': 1, 'b': 2}` and `{'b': 2, 'a': 1}` - equal values - two
    signatures, and a dictionary built from a set (whose iteration order follows the hash seed) a signature that changes from process to process."""
    rep = ctx.report
    n = 0
    for names_, br_, bf_ in all_branches(ctx):
        if "dict" not in names_:
            continue
        n += 1
        body = ast.Module(body=br_.body, type_ignores=[])
        its = [y for y in ast.walk(body) if isinstance(y, ast.Call) and isinstance(y.func, ast.Attribute) and y.func.attr in ("items", "keys")]
        canon = [y for y in ast.walk(body) if isinstance(y, ast.Call) and unparse(y.func).split(".")[-1] in ("sorted", "dds_hash_commut", "frozenset")]
        desc = "the plain-dict branch of the value hasher does not depend on the insertion order of the dictionary"
        rep.roles[bf_.qname] = "role:value-hasher"
        if its and not canon:
            rep.bad(rule, bf_.qname, desc, bf_.loc(br_), [f"{bf_.loc(its[0])}: `{unparse(its[0], 40)}` is hashed in iteration (insertion) order",
                    "weights = {n: len(n) for n in {'alpha', 'beta', 'gamma', 'delta'}}: equal dictionaries in every process, inserted in the iteration order of a set, which follows "
                    "PYTHONHASHSEED: dds.keep('/total', total, weights) gets another signature in another process"], "dict-insertion-order",
                    what="equal dictionaries built in different insertion orders get different signatures (hash-seed dependent for dictionaries built from sets)")
        else:
            rep.ok(rule, bf_.qname, desc, bf_.loc(br_))
    return n


CROSS_TYPE_PAIRS = [
    ("1", 1, '"\\x00\\x00\\x00\\x01"', "\x00\x00\x00\x01"),
    ("0.0", 0.0, '"\\x00" * 8', "\x00" * 8),
    ("None", None, '"__DDS_NONE__"', "__DDS_NONE__"),
    ("7", 7, '"\\x00\\x00\\x00\\x07"', "\x00\x00\x00\x07"),
]


def cross_type_distinct(ctx: Ctx, rule: str) -> int:
    """Values of different supported types that no documented identification relates (list = tuple, bool = int, path / date = its text form are documented) are digested
    from different bytes: the encoding of an integer, a float or None is not also the UTF-8 encoding of some string.  Decided by abstract evaluation of the pre-images."""
    rep = ctx.report
    outer = ctx.prog.func("dds.fun_args.dds_hash")
    n = 0
    bad, und = [], []
    for la, a, lb, b in CROSS_TYPE_PAIRS:
        pa, wa = abstract_preimage(ctx, a)
        pb, wb = abstract_preimage(ctx, b)
        if pa is None or pb is None:
            und.append(f"dds_hash({la}) / dds_hash({lb}): {wa or wb}")
            continue
        n += 1
        if pa == pb:
            bad.append(f"dds_hash({la}) and dds_hash({lb}) digest the same bytes {pa!r}")
    desc = "an integer, a float and None are digested from bytes that no string is digested from (the encodings of different types are domain-separated)"
    rep.roles[outer.qname] = "role:value-hasher-entry"
    if bad:
        rep.bad(rule, outer.qname, desc, outer.loc(), bad + ["dds.keep('/q', f, 1094861636) and dds.keep('/q', f, 'ABCD') share a signature: the result computed for the integer is served for the "
                "string (repr, type-dependent code ... give another result)"], "untagged-encodings", what="values of different types are digested from the same bytes (no type tag): one is served the other's result")
    elif und:
        rep.unknown(rule, outer.qname, "value hasher uses syntax outside the abstract evaluator", outer.loc(), und[:4])
    else:
        rep.ok(rule, outer.qname, desc, outer.loc())
    return n
