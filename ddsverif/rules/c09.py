"""
C09 - dds.load always sees the latest kept value and invalidates its readers.

R1  traversal completeness: a nested recursive walker with a visited set keys the set on its own parameter
    (a key made of enclosing-scope variables is constant: the guard is true on the first recursive call).
R2  producers are registered: a data function and a dds.keep call both write path -> signature into the evaluation's
    resolved references before control returns to the visitor that analyses later siblings.
R3  an ordering violation is a DDS error: a load of a path that is not resolved *when the load is visited* raises a
    DDSException (no assert / bare subscript), and so does the late resolution.
R4  the run-time load consults the running evaluation's path map before the store.
R5  external loads (all loads minus all stores, sorted) are fetched from the store and installed in the context
    before the main analysis starts.
R6  loaded paths are a component of the reader's signature, with duplicates removed (equal pairs cancel in the
    order-insensitive combiner).
"""
from __future__ import annotations

import ast
from typing import List, Optional, Set, Tuple, Any

from ..cfg import cfg_of
from ..flow import flow_of
from ..model import unparse, stmt_key, Func, AnchorError, names_in
from .common import Ctx, find_api_functions, dominated, done_nodes, pass_outcomes, witness_path, calls_to, error_code_of, ancestors
from .c11 import inspectors

PROP = "C09"


def _enumerates_from_root(h: Func, root: str) -> bool:
    """h returns / yields a collection that receives the walker's own parameter, the walker being started on h's root
    parameter (or h adds the root itself)"""
    def adds_param(g: Func, pname: str) -> bool:
        for x in g.own_nodes():
            if isinstance(x, ast.Call) and isinstance(x.func, ast.Attribute) and x.func.attr in ("append", "add") and x.args and isinstance(x.args[0], ast.Name) and x.args[0].id == pname:
                return True
            if isinstance(x, (ast.Yield,)) and isinstance(x.value, ast.Name) and x.value.id == pname:
                return True
        return False
    if adds_param(h, root):
        return True
    for w in h.nested.values():
        started = any(isinstance(y, ast.Call) and isinstance(y.func, ast.Name) and y.func.id == w.name and y.args and isinstance(y.args[0], ast.Name)
                      and y.args[0].id == root for y in h.own_nodes())
        if started and w.params and adds_param(w, w.params[0]):
            return True
    return False


def _applies_to_root(h: Func, cb: str, root: str) -> bool:
    """the traversal h calls its callback parameter `cb` on its root parameter: directly, or inside a nested walker on
    the walker's own parameter, the walker being started on the root"""
    for x in h.own_nodes():
        if isinstance(x, ast.Call) and isinstance(x.func, ast.Name) and x.func.id == cb and x.args and isinstance(x.args[0], ast.Name) and x.args[0].id == root:
            return True
    for w in h.nested.values():
        started = any(isinstance(y, ast.Call) and isinstance(y.func, ast.Name) and y.func.id == w.name and y.args and isinstance(y.args[0], ast.Name)
                      and y.args[0].id == root for y in h.own_nodes())
        if not started:
            continue
        for x in w.own_nodes():
            if isinstance(x, ast.Call) and isinstance(x.func, ast.Name) and x.func.id == cb and x.args and isinstance(x.args[0], ast.Name) and x.args[0].id in w.params:
                return True
    return False


def registered_with_signature(ctx: Ctx, rule: str) -> int:
    """every path produced in the main analysis (`X = Y._replace(store_path=P)` of a kept call, the path of a data function) is
    registered in resolved_references with the RETURN signature of its producer before the function returns"""
    rep = ctx.report
    prog = ctx.prog
    from .roles import resolved_refs_attr
    _RRA[0] = resolved_refs_attr(ctx)
    n2 = 0
    main_mod = prog.module("dds.introspect")
    for f in [x for x in prog.funcs.values() if x.module is main_mod]:
        cfg = cfg_of(f)
        fl = flow_of(prog, f)
        for n in f.own_nodes():
            # keep kind: X = Y._replace(store_path=P)
            if isinstance(n, ast.Assign) and isinstance(n.value, ast.Call) and isinstance(n.value.func, ast.Attribute) and n.value.func.attr == "_replace":
                kws = {k.arg: k.value for k in n.value.keywords}
                if "store_path" not in kws or not isinstance(n.targets[0], ast.Name):
                    continue
                n2 += 1
                P = kws["store_path"]
                X = n.targets[0].id
                regs = _registrations(f)
                good = []
                for (st, key, val) in regs:
                    if unparse(key) == unparse(P) and isinstance(val, ast.Attribute) and val.attr == "fun_return_sig" and isinstance(val.value, ast.Name) and val.value.id == X:
                        good += cfg.nodes_of(st)
                desc = f"the path of the kept call (`{unparse(n, 50)}`) is registered with the callee's signature before returning"
                bad_path = None
                for d in done_nodes(cfg, n):
                    p = cfg.find_path([d], [cfg.exit], avoid=good)
                    if p is not None:
                        bad_path = p
                if bad_path is None:
                    rep.ok(rule, f.qname, desc, f.loc(n))
                else:
                    rep.bad(rule, f.qname, desc, f.loc(n), witness_path(cfg, f, bad_path) + [
                        "a later dds.load of this path in the same evaluation is not resolved (analysis fails) or resolves to the previous content"],
                        stmt_key(n), what="paths produced by dds.keep are not registered for later loads of the same evaluation")
            # annotation kind: fis = inspect_fun(...) ; if fis.store_path: register
            if isinstance(n, ast.Assign) and isinstance(n.value, ast.Call) and unparse(n.value.func).endswith("inspect_fun") and isinstance(n.targets[0], ast.Name) and f.cls is None:
                n2 += 1
                X = n.targets[0].id
                regs = _registrations(f)
                good = []
                for (st, key, val) in regs:
                    if isinstance(key, ast.Attribute) and key.attr == "store_path" and isinstance(key.value, ast.Name) and key.value.id == X and isinstance(val, ast.Attribute) and val.attr == "fun_return_sig":
                        good += cfg.nodes_of(st)
                # the "no path" outcome of `if X.store_path`
                nopath = [b for b in cfg.nodes if b.kind == "branch" and b.label == "F" and b.ast is not None and unparse(b.ast) in (f"{X}.store_path", f"{X}.store_path is not None")]
                nopath += [b for b in cfg.nodes if b.kind == "branch" and b.label == "T" and b.ast is not None and unparse(b.ast) == f"{X}.store_path is None"]
                desc = f"a data function's path (`{X}.store_path`) is registered with its signature before {f.name} returns"
                bad_path = None
                for d in done_nodes(cfg, n):
                    p = cfg.find_path([d], [cfg.exit], avoid=good + nopath)
                    if p is not None:
                        bad_path = p
                if bad_path is None and good:
                    rep.ok(rule, f.qname, desc, f.loc(n))
                else:
                    rep.bad(rule, f.qname, desc, f.loc(n), witness_path(cfg, f, bad_path) if bad_path else ["no registration statement"], stmt_key(n),
                            what="paths produced by data functions are not registered for later loads of the same evaluation")
    return n2



def load_uses_resolved_keys(ctx: Ctx, rule: str) -> int:
    """Inside an evaluation, the public load() resolves a path produced elsewhere to the key that the evaluation resolved at its start
    (the key the signatures of its readers are built on): the top-level function publishes the result of its `fetch_paths` in a field of
    the evaluation context, and load() consults that field before it asks the store again"""
    from .common import find_api_functions, ctx_global_name
    rep = ctx.report
    prog = ctx.prog
    top, _nested = find_api_functions(ctx)
    load = prog.func("dds._api.load")
    if load is None:
        raise AnchorError("dds._api.load not found")
    g = ctx_global_name(ctx)
    fl = flow_of(prog, top)
    # fields of the context that the top-level function fills with something derived from a fetch_paths call
    fields = []
    for n in top.own_nodes():
        if isinstance(n, ast.Call) and (unparse(n.func).endswith("_replace") or unparse(n.func).split(".")[-1] == "EvalContext"):
            for k in n.keywords:
                if k.arg is None:
                    continue
                exprs = [k.value]
                if isinstance(k.value, ast.Name):
                    exprs = [d.value for d in fl.root_defs(k.value) if d.value is not None] or exprs
                # phi of an empty mapping and the fetched one is fine
                if any(isinstance(x, ast.Call) and isinstance(x.func, ast.Attribute) and x.func.attr == "fetch_paths" for e in exprs for x in ast.walk(e)):
                    fields.append(k.arg)
    reads = [x for x in load.own_nodes() if isinstance(x, ast.Attribute) and x.attr in fields and isinstance(x.ctx, ast.Load)]
    if not reads:
        # ... or a method of the context record that load calls consults it (`_eval_ctx.resolved_key(path_)`)
        for c_ in load.own_nodes():
            if isinstance(c_, ast.Call):
                for g_ in prog.callees(load, c_, ctx._types)[0]:
                    if g_.module.name.startswith("dds") and g_.cls is not None and g_.cls.qname.endswith("EvalContext"):
                        if any(isinstance(x, ast.Attribute) and x.attr in fields and isinstance(x.ctx, ast.Load) for x in g_.own_nodes()):
                            reads.append(c_)
    desc = "load() inside an evaluation uses the key that the evaluation resolved for the path when it started"
    if fields and reads:
        rep.ok(rule, load.qname, desc + f" (context field `{fields[0]}`)", load.loc(reads[0]))
    else:
        fp = [x for x in load.own_nodes() if isinstance(x, ast.Call) and isinstance(x.func, ast.Attribute) and x.func.attr == "fetch_paths"]
        rep.bad(rule, load.qname, desc, load.loc(fp[0]) if fp else load.loc(), [
            (f"{top.loc()}: the keys resolved by {top.name} (`fetch_paths(..)` before the analysis) are not published in the evaluation context `{g}`" if not fields
             else f"{load.loc()}: load() does not consult the context field(s) {fields}"),
            f"{load.loc(fp[0]) if fp else load.loc()}: load() asks the store again while the evaluation runs",
            "another process re-points the path between the two reads: the reader is computed from the new content and stored under the key built on the old one; that foreign "
            "blob is then served to everybody for whom the path holds the old content"], "load-resolves-twice",
            what="dds.load resolves an external path a second time during the evaluation: a result can be stored under the key of other inputs")
    return 1



def _establishes_presence(test: ast.AST, label: str) -> bool:
    """the branch `label` of `test` implies that some `<store>.has_blob(..)` answered True"""
    if isinstance(test, ast.UnaryOp) and isinstance(test.op, ast.Not):
        return _establishes_presence(test.operand, "F" if label == "T" else "T")
    if isinstance(test, ast.BoolOp):
        if isinstance(test.op, ast.And) and label == "T":
            return any(_establishes_presence(v, "T") for v in test.values)
        if isinstance(test.op, ast.Or) and label == "F":
            return any(_establishes_presence(v, "F") for v in test.values)
        return False
    return label == "T" and isinstance(test, ast.Call) and isinstance(test.func, ast.Attribute) and test.func.attr == "has_blob"


def load_checks_presence(ctx: Ctx, rule: str) -> int:
    """The public load() hands out `fetch_blob(key)` only after `has_blob(key)` answered True: fetch_blob answers None for an absent blob, which
    is also a legitimate value - inside an evaluation the key of a path that the analysis found but the run did not produce has no blob"""
    from .common import dominated
    rep = ctx.report
    prog = ctx.prog
    load = prog.func("dds._api.load")
    if load is None:
        raise AnchorError("dds._api.load not found")
    cfg = cfg_of(load)
    fetches = [x for x in load.own_nodes() if isinstance(x, ast.Call) and isinstance(x.func, ast.Attribute) and x.func.attr == "fetch_blob"]
    doms = [b for b in cfg.nodes if b.kind == "branch" and b.ast is not None and _establishes_presence(b.ast, b.label)]
    n = 0
    for fb in fetches:
        n += 1
        desc = "load() returns the blob of a key only after the store confirmed that it holds it"
        w = dominated(ctx, load, fb, doms)
        if w is not None:
            # the answer of has_blob may be held in a local (`blob_in_store = _store().has_blob(key)`, `if blob_in_store: return fetch_blob(key)`): no path reaches the
            # fetch in a world where has_blob answered False
            from ..propdom import feasible_path as _fp18
            an18 = lambda e: "<present>" if isinstance(e, ast.Call) and isinstance(e.func, ast.Attribute) and e.func.attr == "has_blob" else None  # noqa: E731
            if any(an18(y) for y in load.own_nodes()) and _fp18(prog, load, cfg, cfg.nodes_of(fb), {"<present>": False}, an18) is None:
                w = None
        if w is None:
            rep.ok(rule, load.qname, desc, load.loc(fb))
        else:
            rep.bad(rule, load.qname, desc, load.loc(fb), w + ["fetch_blob answers None for an absent blob: `if flag: dds.keep('/p', f)` (found by the analysis, not reached when flag is false) "
                    "followed by `dds.load('/p')` returns None instead of the content of '/p' or an error"], "load-absent-blob",
                    what="dds.load returns None when the blob of the path is not in the store")
    return n


def load_uses_normalised_path(ctx: Ctx, rule: str) -> int:
    """dds.load uses its raw argument only to build the normalised path"""
    rep = ctx.report
    prog = ctx.prog
    ld = prog.func("dds._api.load")
    if ld is None:
        raise AnchorError("dds._api.load not found")
    raw = [p_ for p_ in ld.params][:1]
    n12 = 0
    for x in ld.own_nodes():
        if isinstance(x, ast.Name) and raw and x.id == raw[0] and isinstance(x.ctx, ast.Load):
            par = ld.module.parent.get(x)
            n12 += 1
            ok12 = (isinstance(par, ast.Call) and x in par.args and unparse(par.func).split(".")[-1] in ("create", "DDSPath", "str")) or isinstance(par, ast.FormattedValue)
            desc = f"use of the raw argument `{raw[0]}` of load"
            if ok12:
                rep.ok(rule, ld.qname, desc + ": normalisation / message only", ld.loc(x), nontrivial=False)
            else:
                rep.bad(rule, ld.qname, desc + " is the normalisation only", ld.loc(x), [f"{ld.loc(x)}: `{unparse(par, 60)}` uses the raw argument",
                        "dds.load(pathlib.Path('/p')) after the keep of '/p' in the same evaluation: the lookup in the evaluation's map never matches a Path object, "
                        "the load falls back to the store and returns the previous content"], stmt_key(par), what="load looks the raw (un-normalised) argument up")
    return n12

def previous_covers_loads(ctx: Ctx, rule: str) -> int:
    """In the visitor of the main analysis, the signature of "what the function did before this call" that is handed to the call inspector
    covers every list in which the visitor records the outcome of an inspected call - the interactions AND the loaded paths: a value read
    with dds.load may be passed to the next call as a run-time argument"""
    rep = ctx.report
    prog = ctx.prog
    vis = prog.cls("dds.introspect.IntroVisitor")
    if vis is None:
        raise AnchorError("dds.introspect.IntroVisitor not found")
    n = 0
    for m in vis.methods.values():
        if not m.name.startswith("visit_"):
            continue
        recorded = sorted({x.func.value.attr for x in m.own_nodes() if isinstance(x, ast.Call) and isinstance(x.func, ast.Attribute) and x.func.attr == "append"
                           and isinstance(x.func.value, ast.Attribute) and isinstance(x.func.value.value, ast.Name) and x.func.value.value.id == "self"})
        insp = [x for x in m.own_nodes() if isinstance(x, ast.Call) and isinstance(x.func, ast.Attribute) and x.func.attr == "inspect_call"]
        if not recorded or not insp:
            continue
        for call in insp:
            n += 1
            covered = set()
            # the expressions the arguments are made of: through local definitions and through the methods of the visitor they call
            work = [(m, a) for a in list(call.args) + [k.value for k in call.keywords]]
            seen_e = set()
            while work and len(seen_e) < 400:
                g_, e_ = work.pop()
                if id(e_) in seen_e:
                    continue
                seen_e.add(id(e_))
                for x in ast.walk(e_):
                    if isinstance(x, ast.Attribute) and x.attr in recorded and isinstance(x.value, ast.Name) and x.value.id == "self" and isinstance(x.ctx, ast.Load):
                        covered.add(x.attr)
                    elif isinstance(x, ast.Name) and isinstance(x.ctx, ast.Load):
                        from ..cfg import cfg_of as _cfg
                        if _cfg(g_).nodes_of(x):
                            for d in flow_of(prog, g_).defs_of_use(x):
                                if d.value is not None:
                                    work.append((g_, d.value))
                    elif isinstance(x, ast.Call) and isinstance(x.func, ast.Attribute) and isinstance(x.func.value, ast.Name) and x.func.value.id == "self" and x.func.attr in vis.methods:
                        h_ = vis.methods[x.func.attr]
                        for r_ in h_.own_nodes():
                            if isinstance(r_, ast.Return) and r_.value is not None:
                                work.append((h_, r_.value))
            missing = [r for r in recorded if r not in covered]
            desc = f"{m.name}: the context given to the call inspector covers what the visitor recorded so far ({', '.join(recorded)})"
            if missing:
                rep.bad(rule, m.qname, desc, m.loc(call), [f"{m.loc(call)}: no argument of `{unparse(call, 50)}` derives from `self.{missing[0]}`",
                        "`v = dds.load('/x'); dds.keep('/y', g, v)`: the key of the keep does not depend on what '/x' currently resolves to: after '/x' is produced again with "
                        "another content, '/y' keeps its key and the stale blob is served (101 instead of 201)"], f"prev-misses:{','.join(missing)}",
                        what="the call-site context of a kept call does not cover the paths loaded before it")
            else:
                rep.ok(rule, m.qname, desc, m.loc(call))
    return n


def dedup_complete(ctx: Ctx, rule: str) -> int:
    """the order-preserving de-duplication helpers of the analysis (one list in, one list out, a loop with a membership test) return every
    distinct element once, in order of first appearance - decided by abstract evaluation on sample lists"""
    from ..absint import Evaluator, Const
    rep = ctx.report
    prog = ctx.prog
    n = 0
    for f in prog.funcs.values():
        if f.module.name not in ("dds.introspect", "dds._introspect_indirect", "dds.structures_utils") or len(f.positional_params()) != 1 or f.cls is not None:
            continue
        p0 = f.positional_params()[0]
        loops = [x for x in f.own_nodes() if isinstance(x, ast.For) and isinstance(x.iter, ast.Name) and x.iter.id == p0]
        tests = [x for x in f.own_nodes() if isinstance(x, ast.Compare) and len(x.ops) == 1 and isinstance(x.ops[0], (ast.In, ast.NotIn))]
        apps = [x for x in f.own_nodes() if isinstance(x, ast.Call) and isinstance(x.func, ast.Attribute) and x.func.attr == "append"]
        if not (loops and tests and apps):
            continue
        samples = [["a", "b", "a", "c", "b"], ["x"], [], ["p", "p", "q"]]
        bad, und = [], []
        for smp in samples:
            want = list(dict.fromkeys(smp))
            try:
                outs = Evaluator(prog).run(f, [Const(list(smp))])
            except Exception as e:
                und.append(f"{smp}: {type(e).__name__}: {e}")
                continue
            got = {repr(o.value.v) if o.kind == "return" and isinstance(o.value, Const) else (repr([getattr(x, 'v', x) for x in o.value]) if o.kind == "return" and isinstance(o.value, list) else f"{o.kind}:{o.exc or o.value}") for o in outs}
            if got != {repr(want)}:
                bad.append(f"{f.name}({smp}) gives {sorted(got)}, expected {want}")
        if und and not bad:
            rep.info(rule, f.qname, f"{f.name}: not evaluated abstractly ({und[0]})", f.loc())
            continue
        n += 1
        desc = f"{f.name} returns every distinct element once, in order of first appearance"
        if bad:
            rep.bad(rule, f.qname, desc, f.loc(), bad + ["a function that loads two paths keeps only the first one in its signature: it is served from the store although the second path now "
                    "serves another result"], "dedup", what=f"{f.name} drops distinct elements")
        else:
            rep.ok(rule, f.qname, desc + f" ({len(samples)} sample lists)", f.loc())
    return n


def run(ctx: Ctx) -> None:
    rep = ctx.report
    prog = ctx.prog
    from .roles import resolved_refs_attr as _rra_role, path_map_field as _pmf_role
    from .common import ctx_global_name
    _rra = _rra_role(ctx)
    _RRA[0] = _rra
    _pmf9 = _pmf_role(ctx)
    ctx.types
    top, nested = find_api_functions(ctx)
    rep.rule("C09.R1", "visited-set key of a nested recursive walker depends on the walker's own parameter")
    rep.rule("C09.R2", "every `_replace(store_path=P)` / data-function interaction is followed by resolved_references[P] = its signature")
    rep.rule("C09.R3", "unresolved load -> raise DDSException, decided when the load call is visited and at late resolution")
    rep.rule("C09.R4", "load(): key derives from <evaluation context>.requested_paths under `context is not None`")
    rep.rule("C09.R5", "store resolution of external loads dominates the main analysis call")
    rep.rule("C09.R6", "the loads component handed to the composer has unique keys (dict / de-duplicated list)")

    # ---- R1 -------------------------------------------------------------------------------
    n1 = 0
    for f in prog.funcs.values():
        rec_calls = [n for n in f.own_nodes() if isinstance(n, ast.Call) and isinstance(n.func, ast.Name) and n.func.id == f.name]
        loops = [n for n in f.own_nodes() if isinstance(n, (ast.While, ast.For))]
        if not (rec_calls and f.parent is not None) and not loops:
            continue
        all_adds = [n for n in f.own_nodes() if isinstance(n, ast.Call) and isinstance(n.func, ast.Attribute) and n.func.attr == "add" and isinstance(n.func.value, ast.Name)]
        adds = []
        loop_of: Dict[int, ast.AST] = {}
        if rec_calls and f.parent is not None:
            # a recursive closure: the visited set belongs to the enclosing function
            adds = [n for n in all_adds if not prog.is_local(f, n.func.value.id) or (n.func.value.id not in f.params and n.func.value.id not in _assigned(f))]
        else:
            # a work-list loop: the visited set is created before the loop, the add runs once per node taken from the list
            for lp in loops:
                if not any(isinstance(x, ast.Call) and isinstance(x.func, ast.Attribute) and x.func.attr in ("pop", "popleft") for x in ast.walk(lp)):
                    continue
                inside = {id(x) for x in ast.walk(lp)}
                assigned_in = {t.id for x in ast.walk(lp) if isinstance(x, ast.Name) and isinstance(x.ctx, ast.Store) for t in [x]}
                for n in all_adds:
                    if id(n) in inside and n.func.value.id not in assigned_in and id(n) not in loop_of:
                        adds.append(n)
                        loop_of[id(n)] = lp
        for a in adds:
            vset = a.func.value.id  # type: ignore
            tests = [n for n in f.own_nodes() if isinstance(n, ast.Compare) and isinstance(n.ops[0], (ast.In, ast.NotIn)) and isinstance(n.comparators[0], ast.Name)
                     and n.comparators[0].id == vset]
            if not tests:
                continue
            n1 += 1
            key = a.args[0] if a.args else None
            tkey = tests[0].left
            own = set(f.params) | _assigned(f)
            if id(a) in loop_of:
                own = {x.id for x in ast.walk(loop_of[id(a)]) if isinstance(x, ast.Name) and isinstance(x.ctx, ast.Store)}
            desc = f"visited-set key `{unparse(key, 40)}` of {f.name} depends on the node being visited"
            dep_add = bool(names_in(key) & own) if key is not None else False
            dep_test = bool(names_in(tkey) & own)
            proj = None
            for k_ in (key, tkey):
                for x_ in ast.walk(k_) if k_ is not None else []:
                    if isinstance(x_, ast.Attribute) and isinstance(x_.value, ast.Name) and x_.value.id in (own if id(a) in loop_of else f.params):
                        proj = x_
            from ..flow import returns_of
            collector = (f.parent is not None and bool(returns_of(f.parent))) or (id(a) in loop_of and (bool(returns_of(f)) or any(
                isinstance(x, (ast.Yield, ast.YieldFrom)) for x in f.own_nodes())))
            if dep_add and dep_test and proj is not None and not collector:
                rep.info("C09.R1", f.qname, f"walker {f.name} collapses nodes by `{unparse(proj)}` (its enclosing function returns nothing: display only, not judged)", f.loc(a))
            elif dep_add and dep_test and proj is not None:
                rep.bad("C09.R1", f.qname, f"visited-set key of {f.name} identifies the node being visited", f.loc(a),
                        [f"{f.loc(a)}: key `{unparse(key, 40)}` is the field `{unparse(proj)}` of the node, not the node",
                         "two nodes that share this field but differ elsewhere (one function kept under two paths, the methods of a class) are taken for one: the second is skipped and "
                         "its stored path / loads are never collected"], stmt_key(a) + "proj", what=f"{f.name}: visited set keyed on a field of the node skips distinct nodes")
            elif dep_add and dep_test:
                rep.ok("C09.R1", f.qname, desc, f.loc(a))
            else:
                rep.bad("C09.R1", f.qname, desc, f.loc(a),
                        [f"{f.loc(tests[0])}: test `{unparse(tests[0], 50)}`", f"{f.loc(a)}: `{unparse(a, 50)}`",
                         f"the key mentions only variables of the enclosing scope ({sorted(names_in(key) if key is not None else [])}); parameters of {f.name}: {f.params}",
                         "the guard is true on the first recursive call: nothing below the root is collected (a load inside a helper is never resolved)"],
                        stmt_key(a), what=f"{f.name}: recursion guard keyed on an enclosing variable, the walk never leaves the root")
    rep.floor("C09.R1", n1, 2)

    # ---- R2 -------------------------------------------------------------------------------
    n2 = registered_with_signature(ctx, "C09.R2")
    rep.floor("C09.R2", n2, 2)
    main_mod = prog.module("dds.introspect")

    # ---- R3 -------------------------------------------------------------------------------
    n3 = 0
    for f in inspectors(ctx):
        if f.module is not main_mod:
            continue
        cfg = cfg_of(f)
        # the load branch: `return store_path` under `== from_list(["dds","load"])`
        for n in f.own_nodes():
            if isinstance(n, ast.If) and '"load"' in unparse(n.test).replace("'", '"'):
                rets = [r for r in ast.walk(n) if isinstance(r, ast.Return) and r.value is not None and r in _direct_body(n)]
                for r in rets:
                    n3 += 1
                    outs = []
                    for rs in [x for x in ast.walk(n) if isinstance(x, ast.Raise) and error_code_of(x) is not None]:
                        o, atoms = pass_outcomes(cfg, f.module, rs)
                        for a in atoms:
                            if _rra in unparse(a):
                                outs += [x for x in o if x.ast is a]
                    # ... or the inverted form: the path is returned under the outcome "it is in the resolved references" (`if p in resolved: return p`, then the raise)
                    for b in cfg.nodes:
                        if b.kind == "branch" and isinstance(b.ast, ast.Compare) and len(b.ast.ops) == 1 and _rra in unparse(b.ast.comparators[0]) \
                                and any(b.ast is y for y in ast.walk(n)):
                            if (isinstance(b.ast.ops[0], ast.In) and b.label == "T") or (isinstance(b.ast.ops[0], ast.NotIn) and b.label == "F"):
                                outs.append(b)
                    desc = "a load is accepted only if its path is already resolved when the load is visited (ordering in program order)"
                    w = dominated(ctx, f, r, outs) if outs else ["no `raise DDSException` guarded by a membership test in resolved_references precedes the return of the loaded path"]
                    if w is None:
                        rep.ok("C09.R3", f.qname, desc, f.loc(r))
                    else:
                        rep.bad("C09.R3", f.qname, desc, f.loc(r), w + ["`x = dds.load(p); dds.keep(p, f)` is accepted and the load silently uses the previous content of p"],
                                stmt_key(r), what="a load that precedes the producer of its path in the same evaluation is not rejected")
    for f in prog.funcs.values():
        # (the look-up of a late reference: a closure of the function inspector, or a method / function of the module it was moved to)
        if f.module is main_mod and any(isinstance(n, ast.Call) and isinstance(n.func, ast.Attribute) and n.func.attr == "get"
                                        and _rra in unparse(n.func.value) for n in f.own_nodes()):
            n3 += 1
            asserts = [n for n in f.own_nodes() if isinstance(n, ast.Assert)]
            raises = [n for n in f.own_nodes() if isinstance(n, ast.Raise) and error_code_of(n) is not None]
            desc = f"{f.name}: a missing reference raises a DDSException"
            if asserts and not raises:
                rep.bad("C09.R3", f.qname, desc, f.loc(asserts[0]), [f"{f.loc(asserts[0])}: `{unparse(asserts[0], 60)}`: read-before-produce ends in AssertionError (or passes under python -O)"],
                        stmt_key(asserts[0]), what="reading a path before it is produced raises AssertionError instead of a DDS error")
            elif raises:
                rep.ok("C09.R3", f.qname, desc, f.loc(raises[0]))
            else:
                rep.unknown("C09.R3", f.qname, "missing-reference outcome not understood", f.loc())
    rep.floor("C09.R3", n3, 2)

    # ---- R4 -------------------------------------------------------------------------------
    load = prog.func("dds._api.load")
    if load is None:
        raise AnchorError("dds._api.load not found")
    fetches = [n for n in load.own_nodes() if isinstance(n, ast.Call) and isinstance(n.func, ast.Attribute) and n.func.attr == "fetch_blob"]
    desc = "inside an evaluation, load resolves the path in the evaluation's own path map first"
    ok = False
    wit = ["paths are committed once, at the end of the evaluation: the store still maps the path to its previous key (or to nothing)"]
    if fetches and fetches[0].args:
        sl = ctx.slicer(follow_calls=False).slice(load, fetches[0].args[0])
        it = sl.find(lambda f_, n_: isinstance(n_, ast.Attribute) and n_.attr == _pmf9)
        at4 = it.node if it is not None else None
        if it is None:
            # the look-up may be a method of the context record (`_eval_ctx.resolved_key(path_)`): the guard is then looked for around the call in load
            sl_ = ctx.slicer(follow_calls=True).slice(load, fetches[0].args[0])
            it_ = sl_.find(lambda f_, n_: isinstance(n_, ast.Attribute) and n_.attr == _pmf9 and f_ is not load)
            if it_ is not None:
                for c_ in load.own_nodes():
                    if isinstance(c_, ast.Call) and it_.func in prog.callees(load, c_, ctx._types)[0]:
                        it, at4 = it_, c_
                        break
        if it is not None:
            # guarded by `ctx is not None`
            guard = False
            cur = at4
            while cur in load.module.parent:
                cur = load.module.parent[cur]
                if isinstance(cur, ast.If) and ("is not None" in unparse(cur.test) or unparse(cur.test).startswith(ctx_global_name(ctx))):
                    guard = True
                if isinstance(cur, ast.IfExp):
                    guard = True
            if not guard and isinstance(it.node, ast.Attribute) and at4 is it.node:
                # the early-exit form (`if ctx is None: return None` before the read, possibly in an expanded helper): the read is unreachable when the receiver is None
                from ..propdom import excluding_branches as _exb4
                recv = unparse(it.node.value)
                lcfg = cfg_of(load)
                st4 = prog.enclosing_stmt(load.module, it.node)
                av4 = _exb4(prog, load, lcfg, {f"{recv} is None": True})
                if av4 and lcfg.find_path([lcfg.entry], lcfg.nodes_of(st4), avoid=av4) is None:
                    guard = True
            ok = guard
            if not guard:
                wit = [f"{load.loc(it.node)}: requested_paths is read without testing that an evaluation is running"]
    if ok:
        rep.ok("C09.R4", load.qname, desc, load.loc())
    else:
        rep.bad("C09.R4", load.qname, desc, load.loc(), wit, "load-ctx", what="run-time dds.load ignores paths produced by the running evaluation")

    # ---- R5 -------------------------------------------------------------------------------
    cfg = cfg_of(top)
    intro = calls_to(ctx, top, ["dds.introspect.introspect"])
    indirect = calls_to(ctx, top, ["dds._introspect_indirect.introspect_indirect"])
    assigns = [n for n in top.own_nodes() if isinstance(n, ast.Assign) and isinstance(n.targets[0], ast.Attribute) and n.targets[0].attr == _rra]
    if not intro or not indirect:
        raise AnchorError("analysis calls not found in the top-level evaluation function")
    desc = "the references of external loads are fetched from the store and installed before the main analysis"
    if not assigns:
        rep.bad("C09.R5", top.qname, desc, top.loc(), ["no assignment to <context>.resolved_references"], "no-install", what="external loads are never resolved")
    else:
        a = assigns[-1]
        sl = ctx.slicer(follow_calls=True).slice(top, a.value)
        fp = sl.find(lambda f_, n_: isinstance(n_, ast.Call) and isinstance(n_.func, ast.Attribute) and n_.func.attr == "fetch_paths")
        w = dominated(ctx, top, intro[0], done_nodes(cfg, a))
        w2 = dominated(ctx, top, a, [d for c in indirect for d in done_nodes(cfg, c)])
        if fp is not None and w is None and w2 is None:
            rep.ok("C09.R5", top.qname, desc, top.loc(a))
            # the fetched list is all_loads minus all_stores, sorted
            arg = fp.node.args[0] if fp.node.args else None
            sl2 = ctx.slicer(follow_calls=True, follow_callers=True).slice(fp.func, arg) if arg is not None else None
            names = {unparse(n.func).split(".")[-1] for _, n in (sl2.nodes() if sl2 else []) if isinstance(n, ast.Call)}
            minus_stores = False
            for _f, cn in (sl2.nodes() if sl2 else []):
                if isinstance(cn, (ast.ListComp, ast.GeneratorExp, ast.SetComp)):
                    for g in cn.generators:
                        for c_ in g.ifs:
                            if isinstance(c_, ast.Compare) and isinstance(c_.ops[0], ast.NotIn):
                                s3 = ctx.slicer(follow_calls=True, follow_callers=True).slice(_f, c_.comparators[0])
                                if s3.find(lambda f_, n_: isinstance(n_, ast.Call) and unparse(n_.func).endswith("all_stores")) is not None:
                                    minus_stores = True
            if {"all_loads", "sorted"} <= names and minus_stores:
                rep.ok("C09.R5", top.qname, "the fetched paths are the loads not produced by this evaluation, in sorted order", top.loc(fp.node))
            else:
                rep.bad("C09.R5", top.qname, "the fetched paths are the loads not produced by this evaluation, in sorted order", top.loc(fp.node),
                        [f"argument `{unparse(arg, 60)}` derives from calls {sorted(names)}"], "loads-to-check", what="the set of externally resolved loads is wrong")
        else:
            rep.bad("C09.R5", top.qname, desc, top.loc(a), (w or []) + (w2 or []) + ([] if fp is not None else ["the installed map does not derive from fetch_paths"]),
                    "resolve-order", what="loads are resolved after (or independently of) the analysis that needs them")

    # ---- R7 the latest kept value is what the path serves: the evaluation always commits its complete path map ----
    from .c04 import commit_rules
    rep.rule("C09.R7", "as C04.R1: every evaluation that returns commits its complete path map (a skipped commit leaves the path on an older value)")
    commit_rules(ctx, top, "C09.R7")

    # ---- R8: no process-wide cache of analysis results (a reader cached across evaluations keeps the old key of the path it loads)
    from .c03 import global_cache_rule
    rep.rule("C09.R8", "as C03.R3(i): the process-wide interaction cache has no writer")
    global_cache_rule(ctx, "C09.R8")
    # ---- R11 / R12 / R13 ------------------------------------------------------------------------------------------------
    from .c13 import pair_keys_rule
    rep.rule("C09.R11", "as C13.R8: the (key, signature) pairs of the loaded paths are keyed by the path (a constant key lets two paths swap their content "
                        "without changing the reader's signature)")
    pair_keys_rule(ctx, "C09.R11")
    rep.rule("C09.R12", "dds.load uses its raw argument only to build the normalised path: every lookup (evaluation map, store) is made with the normalised value")
    n12 = load_uses_normalised_path(ctx, "C09.R12")
    rep.floor("C09.R12", n12, 1)
    rep.rule("C09.R13", "the walkers of all_stores / all_loads / all_store_paths leave early only on the 'already visited' test: the sub-calls of a node that "
                        "keeps a path are visited like any others")
    n13 = 0
    for q in ("dds.structures_utils.FunctionIndirectInteractionUtils.all_stores", "dds.structures_utils.FunctionIndirectInteractionUtils.all_loads",
              "dds.structures_utils.FunctionInteractionsUtils.all_store_paths"):
        c_ = prog.funcs.get(q)
        if c_ is None:
            continue
        walkers = [w_ for w_ in c_.nested.values() if any(isinstance(y, ast.Call) and isinstance(y.func, ast.Name) and y.func.id == w_.name for y in w_.own_nodes())]
        if not walkers:
            n13 += 1
            rep.info("C09.R13", c_.qname, f"{c_.name} has no recursive walker of its own (traversal delegated): not judged here", c_.loc())
        for w_ in walkers:
            n13 += 1
            bad13 = []
            for r in [y for y in w_.own_nodes() if isinstance(y, ast.Return)]:
                guard = None
                for a in ancestors(w_.module, r):
                    if isinstance(a, ast.If):
                        guard = a
                        break
                    if isinstance(a, (ast.FunctionDef, ast.AsyncFunctionDef)):
                        break
                visited_guard = guard is not None and any(isinstance(t, ast.Compare) and isinstance(t.ops[0], (ast.In, ast.NotIn)) for t in ast.walk(guard.test))
                if not visited_guard:
                    bad13.append(r)
            desc = f"{c_.name}.{w_.name}: every node's sub-calls are visited"
            if bad13:
                rep.bad("C09.R13", w_.qname, desc, w_.loc(bad13[0]), [f"{w_.loc(r)}: `return` that is not the 'already visited' exit: the children of this node are skipped" for r in bad13] + [
                        "a producer nested inside an annotated data function is not collected: its path is resolved from the store up front and a read-before-produce is accepted silently"],
                        stmt_key(bad13[0]), what="the traversal that collects produced / loaded paths stops below a node")
            else:
                rep.ok("C09.R13", w_.qname, desc, w_.loc())
    rep.floor("C09.R13", n13, 2)

    # ---- R10: the collectors of produced paths start at the root -------------------------------------------------------
    rep.rule("C09.R10", "the collectors of kept paths (all_stores / all_store_paths) record the path of the node they are called on, not only of its "
                        "descendants: the root of dds.eval(data_function) produces its own path")
    n10 = 0
    for q in ("dds.structures_utils.FunctionIndirectInteractionUtils.all_stores", "dds.structures_utils.FunctionInteractionsUtils.all_store_paths"):
        c_ = prog.funcs.get(q)
        if c_ is None:
            continue
        n10 += 1
        root_params = [p_ for p_ in c_.params if p_ not in ("cls", "self")]
        members = [c_] + list(c_.nested.values())
        reads = []
        for g_ in members:
            for x in g_.own_nodes():
                if isinstance(x, ast.Attribute) and x.attr == "store_path" and isinstance(x.value, ast.Name):
                    reads.append((g_, x))
        covering = False
        for g_, x in reads:
            if x.value.id not in g_.params:
                continue
            if g_ is c_ and x.value.id in root_params:
                covering = True
            else:
                # the walker is started on the root: called somewhere in the collector with the collector's own parameter
                for y in c_.own_nodes():
                    if isinstance(y, ast.Call) and isinstance(y.func, ast.Name) and y.func.id == g_.name and y.args and isinstance(y.args[0], ast.Name) and y.args[0].id in root_params:
                        covering = True
                    # ... or handed, with the root, to a generic traversal that applies its callback to every node from the root on
                    if isinstance(y, ast.Call) and any(isinstance(a, ast.Name) and a.id == g_.name for a in y.args) and any(isinstance(a, ast.Name) and a.id in root_params for a in y.args):
                        fs_, _d = prog.callees(c_, y, ctx._types)
                        for h_ in fs_:
                            hp = [p_ for p_ in h_.params if p_ not in ("cls", "self")]
                            pos = {a.id: i for i, a in enumerate(y.args) if isinstance(a, ast.Name)}
                            cb_i = pos.get(g_.name)
                            root_i = next((pos[r_] for r_ in root_params if r_ in pos), None)
                            if cb_i is None or root_i is None or cb_i >= len(hp) or root_i >= len(hp):
                                continue
                            if _applies_to_root(h_, hp[cb_i], hp[root_i]):
                                covering = True
        # reads on a variable that ranges over a collection: covering when the collection is produced by an enumerator of
        # all nodes from the root on; "children only" when it ranges over an attribute of a node (its sub-calls)
        children_only = bool(reads)
        for g_, x in reads:
            if x.value.id in g_.params:
                children_only = children_only and not covering
                continue
            it_expr = None
            for y in g_.own_nodes():
                if isinstance(y, ast.comprehension) and any(isinstance(t, ast.Name) and t.id == x.value.id for t in ast.walk(y.target)):
                    it_expr = y.iter
                elif isinstance(y, ast.For) and any(isinstance(t, ast.Name) and t.id == x.value.id for t in ast.walk(y.target)):
                    it_expr = y.iter
            if it_expr is None:
                children_only = False
                continue
            if isinstance(it_expr, ast.Attribute):
                continue  # `for child in node.indirect_deps`: children of a node
            children_only = False
            if isinstance(it_expr, ast.Call) and any(isinstance(a, ast.Name) and a.id in root_params for a in it_expr.args):
                fs_, _d = prog.callees(g_, it_expr, ctx._types)
                for h_ in fs_:
                    hp = [p_ for p_ in h_.params if p_ not in ("cls", "self")]
                    if hp and _enumerates_from_root(h_, hp[0]):
                        covering = True
        desc = f"{c_.name} records the store path of the node it is called on"
        if covering:
            rep.ok("C09.R10", c_.qname, desc, c_.loc())
        elif reads and not children_only:
            rep.info("C09.R10", c_.qname, f"{c_.name}: the nodes whose store_path is read come from a collection that is not understood (not judged)", c_.loc())
        elif reads:
            g_, x = reads[0]
            rep.bad("C09.R10", c_.qname, desc, g_.loc(x), [f"{g_.loc(x)}: `{unparse(x)}` is only read on `{x.value.id}` (a child of the visited node): the path of the root is never collected",
                    "dds.eval(f) with `@data_function('/acc') def f(): ... dds.load('/acc') ...`: '/acc' is then taken for a path produced elsewhere, resolved to its previous key, "
                    "and the read-before-produce evaluation is accepted instead of rejected"], "collector-skips-root", what="the path produced by the root of an evaluation is not counted as produced by it")
        else:
            rep.info("C09.R10", c_.qname, f"{c_.name} reads no store_path itself (delegated): not judged", c_.loc())
    rep.floor("C09.R10", n10, 2)

    from .c12 import passthrough_rules
    rep.rule("C09.R9", "as C12.R3: the object-cache store answers every path query from the wrapped store (the key a load resolves to - and that a "
                       "reader's signature is built from - is the one committed last, by whichever process)")
    passthrough_rules(ctx, "C09.R9", only=["sync_paths", "fetch_paths"])

    # ---- R6 -------------------------------------------------------------------------------
    from .roles import composer as _role_composer
    _composer9 = _role_composer(ctx)
    n6 = 0
    for f in [x for x in prog.funcs.values() if x.module is main_mod]:
        fl = flow_of(prog, f)
        for n in f.own_nodes():
            if isinstance(n, ast.Call) and _composer9 in prog.callees(f, n, ctx._types)[0]:
                kws = {k.arg: k.value for k in n.keywords}
                a = kws.get("indirect_deps")
                if a is None or (isinstance(a, ast.Dict) and not a.keys):
                    continue
                n6 += 1
                desc = "the loads component has one entry per distinct path (duplicates cancel under the xor combiner)"
                exprs = [a]
                if isinstance(a, ast.Name):
                    exprs = [d.value for d in fl.defs_of_use(a) if d.value is not None]
                ok = bool(exprs) and all(isinstance(e, ast.DictComp) or (isinstance(e, ast.Call) and unparse(e.func) in ("dict", "OrderedDict")) for e in exprs)
                if ok:
                    rep.ok("C09.R6", f.qname, desc, f.loc(n))
                else:
                    sl = ctx.slicer(follow_calls=False).slice(f, a)
                    dedup = sl.find(lambda f_, n_: isinstance(n_, ast.Call) and "dup" in unparse(n_.func))
                    if dedup is not None and all(not isinstance(e, (ast.List, ast.ListComp)) or True for e in exprs) and False:
                        rep.ok("C09.R6", f.qname, desc, f.loc(n))
                    else:
                        rep.bad("C09.R6", f.qname, desc, f.loc(n), [f"`indirect_deps={unparse(a, 40)}` is defined by {[unparse(e, 60) for e in exprs]}: not a mapping",
                                "a function that loads the same path twice contributes two equal pairs, which cancel: the reader's signature no longer depends on the path"],
                                stmt_key(n), what="duplicate loads cancel out of the reader's signature")
    rep.floor("C09.R6", n6, 1)
    rep.rule("C09.R17", "inside an evaluation, load() resolves a path produced elsewhere to the key resolved when the evaluation started (the one its readers' signatures use)")
    load_uses_resolved_keys(ctx, "C09.R17")
    rep.rule("C09.R18", "load() returns `fetch_blob(key)` only after `has_blob(key)`: an absent blob (the key of a path the analysis found but the run did not produce) is "
                        "reported as an error, not answered with None")
    n18 = load_checks_presence(ctx, "C09.R18")
    rep.floor("C09.R18", n18, 1)
    rep.rule("C09.R21", "a path given by name is resolved in the module namespace only when the name is not a parameter / local variable of the analysed function (which may shadow the "
                        "module variable): the store-path resolver refuses such a name, and the call-site inspectors hand over the local names")
    n21 = local_paths_refused(ctx, "C09.R21")
    rep.floor("C09.R21", n21, 4)
    rep.rule("C09.R22", "inside an evaluation load looks first among the paths this evaluation produces, then among those resolved from the store at its start")
    n22 = load_prefers_own_paths(ctx, "C09.R22")
    rep.floor("C09.R22", n22, 1)
    rep.rule("C09.R23", "both visitors follow a function referenced by name unless visit_Call has handled that name (the seen-names test is `not in`)")
    n23 = reference_skips_seen(ctx, "C09.R23")
    rep.floor("C09.R23", n23, 2)
    if rep.prop == "C09":
        from .c11 import method_on_result_is_not_the_call
        rep.rule("C09.R25", "as C11.R19: the arguments of a method called on a loaded value are not taken for a store path (`dds.load(p).startswith('/zzz')` does not make '/zzz' a dependency)")
        n25 = method_on_result_is_not_the_call(ctx, "C09.R25")
        rep.floor("C09.R25", n25, 2)
    rep.rule("C09.R24", "the sources of one combined signature (calls, loads, arguments ...) use disjoint key families: equal pairs would cancel in the exclusive-or")
    n24 = key_families_disjoint(ctx, "C09.R24")
    rep.floor("C09.R24", n24, 2)
    rep.rule("C09.R28", "inside one source of a combined signature the keys are pairwise distinct: the key of a pair built in a comprehension names the position (`enumerate`) or "
                        "the key of the mapping that is iterated, never the element of a sequence that may hold it twice (two equal pairs cancel in the exclusive-or)")
    n28 = keys_distinct_within_source(ctx, "C09.R28")
    rep.floor("C09.R28", n28, 1)
    from .common import collected_is_used
    rep.rule("C09.R20", "what the analysis collects it hands on: the interactions found in the methods of a class, in the sub-calls and in the loads of a function are part of the record "
                        "the inspector returns (a local collection that is filled is also read)")
    n20 = collected_is_used(ctx, "C09.R20", ("dds.introspect", "dds._introspect_indirect"),
                            "`x = dds.load(p); Source().refresh()` where the method refresh keeps p: the keep inside the method is not seen by the pre-analysis, the load before it is "
                            "accepted and answers None; a reader that loads through `Reader().read()` is not invalidated when the path changes")
    rep.floor("C09.R20", n20, 1)
    from . import storerules as _S9
    rep.rule("C09.R19", "as C07.R14: the local store resolves the link of a path only after it saw that the link exists: a path that was never kept (next to a kept one) is reported "
                        "missing - dds.load does not return None for it, and a reader is not evaluated on None")
    n19 = _S9.reads_after_presence(ctx, _S9.LocalView(ctx), "C09.R19")
    rep.floor("C09.R19", n19, 3)
    rep.rule("C09.R16", "the signature of the previous steps that keys a call with run-time arguments covers the paths loaded so far, not only the calls made so far")
    n16 = previous_covers_loads(ctx, "C09.R16")
    rep.floor("C09.R16", n16, 2)
    rep.rule("C09.R14", "every path a function loads enters its signature: the de-duplication of the loaded paths keeps every distinct path (abstract evaluation on sample lists)")
    n14 = dedup_complete(ctx, "C09.R14")
    rep.floor("C09.R14", n14, 0)
    from . import visitors as _vis
    rep.rule("C09.R15", "as C01.R2: the visitors of both passes descend into every node (a dds.load / dds.keep written in argument position of another call is seen)")
    n15 = _vis.traversal_complete(ctx, "C09.R15")
    rep.floor("C09.R15", n15, 5)
    if ctx.report.prop == "C09":
        from .common import share_rules as _share8
        _share8(ctx, "C08", "C09.R26", ['C08.R15'], "every external path an evaluation loads is answered by fetch_paths (one mapping that lives across the loop, returned after it): a reader of two kept paths is not refused as 'loaded before it is produced'")
    from .common import replace_result_used as _rru
    rep.rule("C09.R27", "a path produced by dds.keep is recorded by BOTH analysis passes: the record that `_replace(store_path=..)` builds is kept (NamedTuple._replace returns a new record; a call whose result is dropped records nothing)")
    rep.floor("C09.R27", _rru(ctx, "C09.R27"), 2)


def _assigned(f: Func) -> set:
    out = set()
    for n in f.own_nodes():
        if isinstance(n, ast.Name) and isinstance(n.ctx, ast.Store):
            out.add(n.id)
    return out


_RRA = ["resolved_references"]  # set from roles.resolved_refs_attr at the start of each rule that uses it


def _registrations(f: Func):
    """statements `<x>.resolved_references[K] = V` in f"""
    out = []
    for n in f.own_nodes():
        if isinstance(n, ast.Assign) and isinstance(n.targets[0], ast.Subscript):
            t = n.targets[0]
            if isinstance(t.value, ast.Attribute) and t.value.attr == _RRA[0]:
                out.append((n, t.slice, n.value))
    return out


def _direct_body(n: ast.If):
    out = []
    for st in n.body:
        for x in ast.walk(st):
            out.append(x)
    return out


def local_paths_refused(ctx: Ctx, rule: str) -> int:
    """The analysis resolves a path given by NAME (`dds.load(P)`, `dds.keep(P, f)`) in the module's namespace.  A parameter or a local variable of the
    function being analysed may shadow that name: the resolver of store paths is told the function's local names and refuses a name among them,
    and every call-site inspector that knows the local names hands them over."""
    rep = ctx.report
    prog = ctx.prog
    res = prog.func("dds.introspect.InspectFunction._retrieve_store_path")
    if res is None:
        raise AnchorError("role store-path resolver (dds.introspect.InspectFunction._retrieve_store_path) not found")
    a = res.node.args
    ann = {x.arg: (unparse(x.annotation, 100) if x.annotation is not None else "") for x in a.posonlyargs + a.args + a.kwonlyargs}
    locals_params = [p for p, t in ann.items() if "LocalVar" in t]
    n = 1
    desc = "the store-path resolver refuses a path name that is a parameter / local variable of the analysed function"
    cfg = cfg_of(res)
    guard = []
    for b in cfg.nodes:
        if b.kind == "branch" and b.label == "T" and isinstance(b.ast, (ast.Compare, ast.BoolOp)):
            for c_ in ast.walk(b.ast):
                if isinstance(c_, ast.Compare) and len(c_.ops) == 1 and isinstance(c_.ops[0], ast.In) and isinstance(c_.comparators[0], ast.Name) and c_.comparators[0].id in locals_params:
                    guard.append(b)
    if not guard and locals_params:
        # the set may be held under another name first (`shadowing = set() if local_names is None else local_names`)
        fl_ = flow_of(prog, res)

        def from_locals(nm: ast.Name, depth: int = 0) -> bool:
            if nm.id in locals_params:
                return True
            if depth > 3:
                return False
            try:
                ds_ = fl_.defs_of_use(nm)
            except Exception:
                ds_ = []
            return bool(ds_) and all(d_.value is not None and getattr(d_, "kind", "assign") == "assign" and any(
                isinstance(y, ast.Name) and isinstance(y.ctx, ast.Load) and from_locals(y, depth + 1) for y in ast.walk(d_.value)) for d_ in ds_)
        for b in cfg.nodes:
            if b.kind == "branch" and b.label == "T" and isinstance(b.ast, (ast.Compare, ast.BoolOp)):
                for c_ in ast.walk(b.ast):
                    if isinstance(c_, ast.Compare) and len(c_.ops) == 1 and isinstance(c_.ops[0], ast.In) and isinstance(c_.comparators[0], ast.Name) and from_locals(c_.comparators[0]):
                        guard.append(b)
    raises = [r for r in res.own_nodes() if isinstance(r, ast.Raise)]
    refused = [r for r in raises if guard and dominated(ctx, res, r, guard) is None]
    if locals_params and refused:
        rep.ok(rule, res.qname, desc, res.loc(refused[0]))
    else:
        rep.bad(rule, res.qname, desc, res.loc(), [f"{res.loc()}: " + ("no parameter carries the local names of the analysed function" if not locals_params else
                f"no raise under `<name> in {locals_params[0]}`"),
                "`P = '/p'` in the module and `def reader(): P = '/other'; return dds.load(P)`: the analysis tracks '/p', the run loads '/other': the reader is not evaluated again when "
                "'/other' changes"], "local-path-name", what="a path given by a local variable is resolved in the module namespace (a shadowed module variable is tracked instead)")
    for f in prog.funcs.values():
        if f.module.name not in ("dds.introspect", "dds._introspect_indirect"):
            continue
        fa = f.node.args
        f_locals = [x.arg for x in fa.posonlyargs + fa.args + fa.kwonlyargs if x.annotation is not None and "LocalVar" in unparse(x.annotation, 100)]
        # ... or the object keeps them: `self._var_names = var_names` in the constructor of the inspector class
        if f.cls is not None and "__init__" in f.cls.methods:
            init = f.cls.methods["__init__"]
            ia = init.node.args
            init_locals = [x.arg for x in ia.posonlyargs + ia.args + ia.kwonlyargs if x.annotation is not None and "LocalVar" in unparse(x.annotation, 100)]
            for st_ in init.own_nodes():
                if isinstance(st_, (ast.Assign, ast.AnnAssign)) and isinstance(st_.value, ast.Name) and st_.value.id in init_locals:
                    tg_ = st_.targets[0] if isinstance(st_, ast.Assign) else st_.target
                    if isinstance(tg_, ast.Attribute) and isinstance(tg_.value, ast.Name) and tg_.value.id == "self":
                        f_locals.append("self." + tg_.attr)
        for c in f.own_nodes():
            if isinstance(c, ast.Call) and isinstance(c.func, ast.Attribute) and c.func.attr == res.name and f_locals:
                n += 1
                passed = [x for x in list(c.args) + [k.value for k in c.keywords] if isinstance(x, (ast.Name, ast.Attribute)) and unparse(x) in f_locals]
                d2 = f"{f.name}: the local names are handed to the store-path resolver"
                if passed:
                    rep.ok(rule, f.qname, d2, f.loc(c))
                else:
                    rep.bad(rule, f.qname, d2, f.loc(c), [f"{f.loc(c)}: `{unparse(c, 80)}` does not pass `{f_locals[0]}`"], stmt_key(c),
                            what="a call-site inspector resolves a path name without telling the resolver the function's local names")
    return n


def load_prefers_own_paths(ctx: Ctx, rule: str) -> int:
    """Inside an evaluation dds.load looks a path up first among the paths THIS evaluation produces (the path map of the context), and only then among the
    paths resolved from the store when the evaluation started: a path that is in both tables (the root keeps a path it also loads) must get the key
    being produced - whose blob is not there yet, so that the load is refused - not the previous content of the store."""
    from .roles import path_map_field
    rep = ctx.report
    prog = ctx.prog
    load = prog.func("dds._api.load")
    if load is None:
        raise AnchorError("dds._api.load not found")
    pmf = path_map_field(ctx)
    if not any(isinstance(x, ast.Attribute) and x.attr == pmf and isinstance(x.ctx, ast.Load) for x in load.own_nodes()):
        # the look-ups may be a method of the context record that load calls (`_eval_ctx.resolved_key(path_)`): the order is decided there
        for c_ in load.own_nodes():
            if isinstance(c_, ast.Call):
                for g_ in prog.callees(load, c_, ctx._types)[0]:
                    if g_.module.name.startswith("dds") and g_.cls is not None and any(isinstance(x, ast.Attribute) and x.attr == pmf and isinstance(x.ctx, ast.Load) for x in g_.own_nodes()):
                        load = g_
    cfg = cfg_of(load)
    own = [x for x in load.own_nodes() if isinstance(x, ast.Attribute) and x.attr == pmf and isinstance(x.ctx, ast.Load)]
    from .roles import _record_fields
    maps = [k_ for k_, a_ in _record_fields(ctx, "dds.structures.EvalContext").items() if "DDSPath" in a_ and "PyHash" in a_ and k_ != pmf]
    # every read of another path -> signature table of the context that feeds a look-up (`.get(..)` / subscript), however it is written (`(ctx.loaded or {}).get(p)`)
    other = []
    for x in load.own_nodes():
        if isinstance(x, ast.Attribute) and isinstance(x.ctx, ast.Load) and x.attr in maps:
            st_ = prog.enclosing_stmt(load.module, x)
            if any(isinstance(p_, ast.Call) and isinstance(p_.func, ast.Attribute) and p_.func.attr == "get" for p_ in ast.walk(st_)) or any(isinstance(p_, ast.Subscript) for p_ in ast.walk(st_)):
                if not isinstance(st_, ast.If) or True:
                    other.append(x)
    # (a bare test `ctx.loaded is not None` is not a look-up)
    other = [x for x in other if not (isinstance(load.module.parent.get(x), ast.Compare) and not any(
        isinstance(p_, ast.Call) and isinstance(p_.func, ast.Attribute) and p_.func.attr == "get" and any(y is x for y in ast.walk(p_.func.value)) for p_ in load.own_nodes()))]
    if not own or not other:
        return 0
    own_nodes = [g for x in own for g in cfg.nodes_of(prog.enclosing_stmt(load.module, x))]
    n = 0
    for x in other:
        n += 1
        st = prog.enclosing_stmt(load.module, x)
        desc = f"load consults `{unparse(x, 40)}` only after the paths produced by this evaluation (`{pmf}`)"
        p = cfg.find_path([cfg.entry], cfg.nodes_of(st), avoid=own_nodes)
        if p is not None:
            # (an exit test repeated in front of each look-up - `if ctx is None: key = None` - skips them together: read along the paths)
            from ..propdom import feasible_path as _fp22
            p = _fp22(prog, load, cfg, cfg.nodes_of(st), {}, None, avoid=own_nodes)
        if p is None:
            rep.ok(rule, load.qname, desc, load.loc(x))
        else:
            rep.bad(rule, load.qname, desc, load.loc(x), [f"{load.loc(x)}: `{unparse(st, 70)}` is reached before any look-up in `{pmf}`",
                    "dds.keep('/acc', f) where f loads '/acc' itself, on a store that already holds '/acc': the load is served the previous content (the function accumulates over its own "
                    "output) where the evaluation must be refused"], "load-order", what="dds.load prefers the store's previous content to the path this evaluation is producing")
    return n


def reference_skips_seen(ctx: Ctx, rule: str) -> int:
    """Both visitors follow a function that is referenced by name exactly when the set of seen names does NOT hold it yet: in the method that handles references, the
    inspection of the referenced function (`inspect_call`) cannot be reached when the name is in the set, and can be reached when it is not - whatever the shape of the
    test (`.. and name not in seen`, `if name in seen: return`)."""
    from ..propdom import excluding_branches
    rep = ctx.report
    prog = ctx.prog
    n = 0
    for q in ("dds.introspect.IntroVisitor", "dds._introspect_indirect.IntroVisitorIndirect"):
        k = prog.cls(q)
        if k is None:
            continue
        seen_sets = {y.func.value.attr for m__ in k.methods.values() if m__.name != "__init__" for y in m__.own_nodes()
                     if isinstance(y, ast.Call) and isinstance(y.func, ast.Attribute) and y.func.attr in ("add", "update")
                     and isinstance(y.func.value, ast.Attribute) and isinstance(y.func.value.value, ast.Name) and y.func.value.value.id == "self"}
        for vn in k.methods.values():
            if vn.name == "visit_Call" or vn.name == "__init__":
                continue
            tests = [c for c in vn.own_nodes() if isinstance(c, ast.Compare) and len(c.ops) == 1 and isinstance(c.ops[0], (ast.In, ast.NotIn))
                     and isinstance(c.comparators[0], ast.Attribute) and c.comparators[0].attr in seen_sets]
            calls = [c for c in vn.own_nodes() if isinstance(c, ast.Call) and isinstance(c.func, ast.Attribute) and c.func.attr == "inspect_call"]
            if not tests or not calls:
                continue
            cfg = cfg_of(vn)

            def atom(e: ast.AST) -> Optional[str]:
                if isinstance(e, ast.Compare) and len(e.ops) == 1 and isinstance(e.ops[0], (ast.In, ast.NotIn)) and isinstance(e.comparators[0], ast.Attribute) \
                        and e.comparators[0].attr in seen_sets:
                    return "seen" if isinstance(e.ops[0], ast.In) else "!seen"
                return None
            for c in calls:
                n += 1
                tg = cfg.nodes_of(c)
                when_seen = cfg.find_path([cfg.entry], tg, avoid=excluding_branches(prog, vn, cfg, {"seen": True}, atom))
                when_new = cfg.find_path([cfg.entry], tg, avoid=excluding_branches(prog, vn, cfg, {"seen": False}, atom))
                desc = f"{k.name}.{vn.name} inspects a referenced function exactly when `self.{sorted(seen_sets)[0]}` does not hold its name"
                if when_seen is None and when_new is not None:
                    rep.ok(rule, vn.qname, desc, vn.loc(c))
                else:
                    rep.bad(rule, vn.qname, desc, vn.loc(c), [f"{vn.loc(tests[0])}: `{unparse(tests[0], 60)}`: the inspection is " + ("reachable for a name that was already handled" if when_seen is not None else "")
                            + ("; " if when_seen is not None and when_new is None else "") + ("not reachable for a name that was not handled yet" if when_new is None else ""),
                            "a function that is only handed by name to a higher-order helper (`apply(reader)`) is not followed: the paths it loads are not resolved before the main analysis, "
                            "which then refuses them as 'loaded before produced' although they are in the store"], stmt_key(tests[0]),
                            what="functions referenced by name are not followed by the analysis (the seen-names test is inverted)")
    return n


def keys_distinct_within_source(ctx: Ctx, rule: str) -> int:
    """Every comprehension of (key, hash) pairs of the analysis modules - a 2-tuple whose first component is a formatted key, `HK(f"load_dep_{..}")` - takes the varying
    part of the key from something that is different at every iteration: the index of `enumerate(..)`, or the key of the mapping / the member of the set it iterates.
    The loads of a function are a *list* (the same path may be loaded twice): keyed by the path, the two pairs of `len(dds.load(p)) + max(dds.load(p))` are equal and
    cancel in the exclusive-or of the combiner; the call that receives the loaded values keeps its signature when p is kept again with another value."""
    rep = ctx.report
    prog = ctx.prog
    n = 0

    def target_names(t: ast.AST) -> List[str]:
        return [x.id for x in ast.walk(t) if isinstance(x, ast.Name)]

    def list_typed(f: Func, it: ast.AST) -> Optional[str]:
        """why the iterable is a sequence that may hold an element twice, None when this is not known"""
        if isinstance(it, (ast.List, ast.ListComp)):
            return "a list display"
        if isinstance(it, ast.Call) and isinstance(it.func, ast.Name) and it.func.id in ("list", "tuple") and it.args:
            return list_typed(f, it.args[0]) or (f"`{unparse(it, 40)}` keeps the duplicates of its argument" if not isinstance(it.args[0], ast.Call) else None)
        ann = None
        if isinstance(it, ast.Attribute) and isinstance(it.value, ast.Name) and it.value.id == "self" and f.cls is not None:
            for m in f.cls.methods.values():
                for x in m.own_nodes():
                    if isinstance(x, ast.AnnAssign) and isinstance(x.target, ast.Attribute) and isinstance(x.target.value, ast.Name) and x.target.value.id == "self" and x.target.attr == it.attr:
                        ann = x.annotation
                    elif isinstance(x, ast.Assign) and any(isinstance(t, ast.Attribute) and isinstance(t.value, ast.Name) and t.value.id == "self" and t.attr == it.attr for t in x.targets) \
                            and isinstance(x.value, ast.List):
                        return f"`self.{it.attr}` is a list (`{unparse(x, 50)}`)"
        elif isinstance(it, ast.Name):
            for a in f.node.args.args + f.node.args.kwonlyargs:
                if a.arg == it.id:
                    ann = a.annotation
            for x in f.own_nodes():
                if isinstance(x, ast.AnnAssign) and isinstance(x.target, ast.Name) and x.target.id == it.id:
                    ann = x.annotation
        if ann is not None:
            head = unparse(ann).split("[")[0].split(".")[-1]
            if head in ("List", "list", "Sequence", "Tuple", "tuple", "Iterable"):
                return f"`{unparse(it, 40)}` is declared `{unparse(ann, 50)}`"
        return None

    class _Gen:  # the loop form `for T in IT: xs.append((key, h))` read like the one generator of a comprehension
        def __init__(self, target: ast.AST, it: ast.AST) -> None:
            self.target, self.iter = target, it

    uses_combiner = {f.module for f in prog.funcs.values() for x in f.own_nodes() if isinstance(x, ast.Call) and (prog.dotted(f, x.func) or "").endswith("dds_hash_commut")}
    for f in prog.funcs.values():
        if f.module not in uses_combiner or f.module.name == "dds.fun_args":
            continue
        sites: List[Tuple[ast.AST, ast.AST, Any]] = []
        for c in f.own_nodes():
            if isinstance(c, (ast.ListComp, ast.GeneratorExp)) and isinstance(c.elt, ast.Tuple) and len(c.elt.elts) == 2 and len(c.generators) == 1:
                sites.append((c, c.elt.elts[0], c.generators[0]))
            elif isinstance(c, ast.For) and not c.orelse:
                for st in c.body:
                    if isinstance(st, ast.Expr) and isinstance(st.value, ast.Call) and isinstance(st.value.func, ast.Attribute) and st.value.func.attr == "append" \
                            and len(st.value.args) == 1 and isinstance(st.value.args[0], ast.Tuple) and len(st.value.args[0].elts) == 2:
                        sites.append((c, st.value.args[0].elts[0], _Gen(c.target, c.iter)))
        for c, k, gen in sites:
            if isinstance(k, ast.Call) and len(k.args) == 1 and not k.keywords:
                k = k.args[0]
            if not isinstance(k, ast.JoinedStr):
                continue
            varying = {x.id for v in k.values if isinstance(v, ast.FormattedValue) for x in ast.walk(v.value) if isinstance(x, ast.Name)}
            it = gen.iter
            tn = target_names(gen.target)
            varying &= set(tn)
            if not varying:
                continue
            n += 1
            desc = f"{f.name}: the keys `{unparse(k, 40)}` of the pairs built over `{unparse(it, 40)}` are pairwise distinct"
            unique: Optional[Set[str]] = None
            why = None
            if isinstance(it, ast.Call) and isinstance(it.func, ast.Name) and it.func.id == "enumerate" and isinstance(gen.target, ast.Tuple) and len(gen.target.elts) == 2:
                unique = set(target_names(gen.target.elts[0]))
                inner = it.args[0] if it.args else None
                if inner is not None and not (isinstance(inner, ast.Call) and isinstance(inner.func, ast.Name) and inner.func.id in ("set", "frozenset")):
                    why = list_typed(f, inner) or "the elements of the enumerated sequence may repeat"
                # enumerate(set(..)): the elements are distinct as well
                if why is None:
                    unique |= set(target_names(gen.target.elts[1]))
            elif isinstance(it, ast.Call) and isinstance(it.func, ast.Attribute) and it.func.attr == "items" and isinstance(gen.target, ast.Tuple) and len(gen.target.elts) == 2:
                unique = set(target_names(gen.target.elts[0]))
                why = "the values of a mapping may repeat"
            elif isinstance(it, ast.Call) and ((isinstance(it.func, ast.Attribute) and it.func.attr == "keys") or (isinstance(it.func, ast.Name) and it.func.id in ("set", "frozenset"))):
                unique = set(tn)
            elif isinstance(it, ast.Call) and isinstance(it.func, ast.Name) and it.func.id == "sorted" and it.args and isinstance(it.args[0], ast.Call) \
                    and isinstance(it.args[0].func, ast.Name) and it.args[0].func.id in ("set", "frozenset"):
                unique = set(tn)
            else:
                why = list_typed(f, it)
                if why is None:
                    # not known to be a sequence with repetitions (a mapping, a set, a de-duplicated list): nothing is claimed about it
                    rep.ok(rule, f.qname, desc + " (iterable not known to hold an element twice)", f.loc(c))
                    continue
                unique = set()
            if varying & unique:
                rep.ok(rule, f.qname, desc + f" (`{sorted(varying & unique)[0]}` differs at every iteration)", f.loc(c))
            else:
                rep.bad(rule, f.qname, desc, f.loc(c),
                        [f"the key varies with `{sorted(varying)[0]}` only, and {why}",
                         "two loads of one path in one body (`len(dds.load(p))`, `max(dds.load(p))`) give two equal (key, signature) pairs, which cancel in the exclusive-or of the combiner: the "
                         "context handed to the next kept call no longer depends on what p serves, and the call is served stale after p was kept again with another value"],
                        stmt_key(c), what="equal pairs inside one source of a combined signature cancel out (key not unique per element)")
    return n


def key_families_disjoint(ctx: Ctx, rule: str) -> int:
    """The (key, hash) pairs that one call of the order-insensitive combiner receives from different sources carry keys of different families (`fun_dep_<i>`,
    `load_dep_<i>`, `arg_<name>` ...): two equal pairs cancel in the exclusive-or, so that a call and a load with the same index and the same signature would
    both drop out of the context."""
    rep = ctx.report
    prog = ctx.prog

    def families(f: Func, e: ast.AST, depth: int = 0) -> Optional[Set[str]]:
        """key prefixes of the pairs this expression yields (None when not recognised)"""
        if isinstance(e, ast.BinOp) and isinstance(e.op, ast.Add):
            return None
        pair = None
        if isinstance(e, (ast.ListComp, ast.GeneratorExp)) and isinstance(e.elt, ast.Tuple) and len(e.elt.elts) == 2:
            pair = [e.elt]
        elif isinstance(e, ast.List) and all(isinstance(x, ast.Tuple) and len(x.elts) == 2 for x in e.elts) and e.elts:
            pair = list(e.elts)
        if pair is not None:
            out = set()
            for t in pair:
                k = t.elts[0]
                if isinstance(k, ast.Call) and len(k.args) == 1:
                    k = k.args[0]
                if isinstance(k, ast.JoinedStr):
                    out.add("".join(v.value for v in k.values if isinstance(v, ast.Constant) and isinstance(v.value, str)))
                elif isinstance(k, ast.Constant):
                    out.add(str(k.value))
                elif isinstance(k, ast.Name):
                    out.add("$" + k.id)
                else:
                    return None
            return out
        if isinstance(e, ast.Name) and depth < 3:
            ds = flow_of(prog, f).defs_of_use(e)
            if len(ds) == 1 and ds[0].value is not None:
                return families(f, ds[0].value, depth + 1)
            return None
        if isinstance(e, ast.Call) and depth < 3:
            fs, _ = prog.callees(f, e, ctx._types)
            if len(fs) == 1 and fs[0].module.name.startswith("dds"):
                g = fs[0]
                rets = [r for r in g.own_nodes() if isinstance(r, ast.Return) and r.value is not None]
                if len(rets) == 1:
                    return families(g, rets[0].value, depth + 1)
        if isinstance(e, ast.IfExp):
            a, b = families(f, e.body, depth), families(f, e.orelse, depth)
            return (a or set()) | (b or set()) if a is not None or b is not None else None
        return None

    def operands(e: ast.AST) -> List[ast.AST]:
        if isinstance(e, ast.BinOp) and isinstance(e.op, ast.Add):
            return operands(e.left) + operands(e.right)
        return [e]
    n = 0
    for f in prog.funcs.values():
        if f.module.name not in ("dds.introspect", "dds._introspect_indirect"):
            continue
        for c in f.own_nodes():
            if not (isinstance(c, ast.Call) and (prog.dotted(f, c.func) or "").endswith("dds_hash_commut") and c.args):
                continue
            arg = c.args[0]
            if isinstance(arg, ast.Name):
                ds = flow_of(prog, f).defs_of_use(arg)
                if len(ds) == 1 and ds[0].value is not None:
                    arg = ds[0].value
            ops = operands(arg)
            fams = [(o, families(f, o)) for o in ops]
            known = [(o, fm) for o, fm in fams if fm]
            if len(known) < 2:
                continue
            n += 1
            clash = []
            for i in range(len(known)):
                for j in range(i + 1, len(known)):
                    common = known[i][1] & known[j][1]
                    if common:
                        clash.append(f"`{unparse(known[i][0], 40)}` and `{unparse(known[j][0], 40)}` both yield keys `{sorted(common)[0]}..`")
            desc = f"{f.name}: the pairs combined by `{unparse(c, 40)}` come with keys of distinct families {[sorted(fm)[0] for _, fm in known]}"
            if clash:
                rep.bad(rule, f.qname, desc, f.loc(c), clash + ["when the i-th tracked call produces the path p and the i-th load reads p, the two pairs (same key, same signature) cancel in the "
                        "exclusive-or: the later call that receives the loaded value keeps its signature when the producer changes"], stmt_key(c),
                        what="two sources of one combined signature share a key family: equal pairs cancel out")
            else:
                rep.ok(rule, f.qname, desc, f.loc(c))
    return n
