"""
C13 - a kept call's signature depends on the argument binding, not on its spelling.

The run-time binder (values) and the source-literal binder (AST constants) are siblings.

R1  same skeleton: both read the parameters with inspect.signature(f) (which follows __wrapped__), iterate all of
    `.parameters.items()` without filter / break / continue, and pick the value source by the same three-way test in
    the same order: positional (idx < number of positionals), keyword (own name in kwargs), default.
R2  same normaliser at every hashing site: the hashed expression is the bound value itself (positional / keyword /
    default / literal); `v or C`, `v if v is not None else C` etc. are evaluated abstractly on {None, falsy, truthy};
    the hasher is dds_hash itself, not a memoised wrapper.
R3  every parameter's (name, hash) pair is appended on every normal path through the loop body; pairs are keyed by the
    parameter's own name.
"""
from __future__ import annotations

import ast
from typing import Any, Dict, List, Optional, Set, Tuple

from ..absint import Evaluator, Const, Sym, Env, TOP, NOT_HANDLED as NOT_HANDLED_
from ..cfg import cfg_of
from ..flow import flow_of
from ..model import unparse, stmt_key, Func, AnchorError
from .common import Ctx, witness_path

PROP = "C13"


def binders(ctx: Ctx) -> Tuple[Func, Func]:
    m = ctx.prog.module("dds.fun_args")
    a, b = m.funcs.get("get_arg_ctx"), m.funcs.get("get_arg_ctx_ast")
    if a is None or b is None:
        raise AnchorError("role argument binders (dds.fun_args.get_arg_ctx / get_arg_ctx_ast) not found")
    return a, b


def _param_loop(f: Func) -> Optional[ast.For]:
    for n in f.own_nodes():
        if isinstance(n, ast.For) and "parameters" in unparse(n.iter) or (isinstance(n, ast.For) and "args" in unparse(n.iter) and "spec" in unparse(n.iter)):
            return n  # type: ignore
    for n in f.own_nodes():
        if isinstance(n, ast.For):
            return n
    return None


def _zipped(loop: ast.For) -> Optional[Tuple[Optional[str], Optional[str], str]]:
    """`for ((name, param), value) in zip(sig.parameters.items(), <positional values padded with a sentinel>)`: (name variable, parameter variable, positional-value
    variable) - the parameter is bound by position when the zipped value is not the padding"""
    t = loop.target
    it = loop.iter
    if not (isinstance(it, ast.Call) and unparse(it.func) == "zip" and len(it.args) == 2 and isinstance(t, ast.Tuple) and len(t.elts) == 2 and isinstance(t.elts[1], ast.Name)):
        return None
    first = t.elts[0]
    if "parameters" not in unparse(it.args[0]):
        return None
    if isinstance(first, ast.Tuple) and len(first.elts) == 2 and all(isinstance(x, ast.Name) for x in first.elts):
        return first.elts[0].id, first.elts[1].id, t.elts[1].id
    if isinstance(first, ast.Name):
        return None, first.id, t.elts[1].id
    return None


def _loop_vars(loop: ast.For) -> Tuple[Optional[str], Optional[str]]:
    """(index variable, name variable) of `for (idx, (name, param)) in enumerate(sig.parameters.items())`"""
    t = loop.target
    idx = name = None
    z = _zipped(loop)
    if z is not None:
        return None, z[0]
    if isinstance(t, ast.Tuple) and len(t.elts) == 2:
        if isinstance(t.elts[0], ast.Name) and isinstance(t.elts[1], ast.Tuple) and t.elts[1].elts and isinstance(t.elts[1].elts[0], ast.Name):
            idx, name = t.elts[0].id, t.elts[1].elts[0].id
        elif isinstance(t.elts[0], ast.Name) and "enumerate" not in unparse(loop.iter):
            name = t.elts[0].id
    return idx, name


def _param_names(loop: ast.For) -> Tuple[Optional[str], Set[str], Set[str]]:
    """(index variable, names that hold the parameter's name, names that hold the parameter object) of the parameter loop, for the forms
    `for (i, (name, p)) in enumerate(sig.parameters.items())`, `for (name, p) in sig.parameters.items()`, `for (i, p) in enumerate(sig.parameters.values())` (+ `name = p.name`)"""
    idx_var, name_var = _loop_vars(loop)
    param_vars: Set[str] = set()
    t = loop.target
    z = _zipped(loop)
    if z is not None:
        if z[1]:
            param_vars.add(z[1])
        t = None
    if isinstance(t, ast.Tuple) and len(t.elts) == 2:
        second = t.elts[1]
        if isinstance(second, ast.Tuple) and len(second.elts) == 2 and isinstance(second.elts[1], ast.Name):
            param_vars.add(second.elts[1].id)
        elif isinstance(second, ast.Name):
            param_vars.add(second.id)
            if "enumerate" in unparse(loop.iter) and isinstance(t.elts[0], ast.Name):
                idx_var = idx_var or t.elts[0].id
                if name_var == t.elts[0].id:
                    name_var = None
    elif isinstance(t, ast.Name):
        param_vars.add(t.id)
    names: Set[str] = {name_var} if name_var else set()
    for st in ast.walk(loop):
        if isinstance(st, (ast.Assign, ast.AnnAssign)) and st.value is not None:
            tg = st.targets[0] if isinstance(st, ast.Assign) and len(st.targets) == 1 else (st.target if isinstance(st, ast.AnnAssign) else None)
            if isinstance(tg, ast.Name):
                if isinstance(st.value, ast.Name) and st.value.id in param_vars:
                    param_vars.add(tg.id)
                if isinstance(st.value, ast.Attribute) and st.value.attr == "name" and isinstance(st.value.value, ast.Name) and st.value.value.id in param_vars:
                    names.add(tg.id)
                if isinstance(st.value, ast.Name) and st.value.id in names:
                    names.add(tg.id)
    return idx_var, names, param_vars


def _sources(f: Func, loop: ast.For) -> List[str]:
    """order of value sources tested in the loop body: positional / keyword / default (recognised by structure: a
    comparison of the enumeration index, a membership test of the parameter's own name, a test on `<param>.default`)"""
    out: List[str] = []
    idx_var, name_var = _loop_vars(loop)
    # plain copies of the loop variables (parameter bindings of an inlined helper: `name = n`)
    idx_names, name_names = {idx_var}, {name_var}
    for n_ in ast.walk(loop):
        if isinstance(n_, ast.Assign) and len(n_.targets) == 1 and isinstance(n_.targets[0], ast.Name) and isinstance(n_.value, ast.Name):
            if n_.value.id in name_names:
                name_names.add(n_.targets[0].id)
            if n_.value.id in idx_names:
                idx_names.add(n_.targets[0].id)

    def walk(stmts: List[ast.stmt]) -> None:
        for st in stmts:
            if isinstance(st, (ast.With, ast.Try)):
                walk(st.body)
                continue
            if isinstance(st, ast.If):
                t = unparse(st.test)
                kind = None
                c = st.test
                # `idx < num_args and <something about the parameter>`: the comparison of the index is what selects the source
                if isinstance(c, ast.BoolOp) and isinstance(c.op, ast.And):
                    cmp_ = [v for v in c.values if isinstance(v, ast.Compare) and len(v.ops) == 1 and isinstance(v.ops[0], (ast.Lt, ast.LtE, ast.Gt, ast.GtE, ast.In))]
                    if cmp_:
                        c = cmp_[0]
                        t = unparse(c)
                if isinstance(c, ast.Compare) and len(c.ops) == 1:
                    sides = [c.left, c.comparators[0]]
                    if isinstance(c.ops[0], (ast.Lt, ast.LtE, ast.Gt, ast.GtE)) and idx_var and any(isinstance(x, ast.Name) and x.id in idx_names for x in sides):
                        kind = "positional"
                    elif isinstance(c.ops[0], (ast.Lt, ast.LtE)) and ("idx" in t or "num_args" in t):
                        kind = "positional"
                    elif isinstance(c.ops[0], ast.In) and isinstance(c.left, ast.Name) and (c.left.id in name_names or (name_var is None and "kwargs" in t)) \
                            and not (isinstance(c.left, ast.Constant)):
                        kind = "keyword"
                zz = _zipped(loop)
                if kind is None and zz is not None and isinstance(c, ast.Compare) and len(c.ops) == 1 and isinstance(c.ops[0], (ast.Is, ast.IsNot, ast.Eq, ast.NotEq)) \
                        and isinstance(c.left, ast.Name) and c.left.id == zz[2]:
                    kind = "positional"
                if kind is None and any(isinstance(x, ast.Attribute) and x.attr == "default" for x in ast.walk(c)) and "empty" in t:
                    kind = "default"
                if kind and kind not in out:
                    out.append(kind)
                walk(st.body)
                walk(st.orelse)

    walk(loop.body)
    return out


def pair_keys_rule(ctx: Ctx, rule: str) -> int:
    """every comprehension / loop of the composer that yields (key, hash) pairs builds the key from its loop variable"""
    rep = ctx.report
    prog = ctx.prog
    from .roles import composer as _role_composer
    comp_f = _role_composer(ctx)
    n8 = 0
    if comp_f is None:
        raise AnchorError("dds.introspect._build_return_sig not found")
    for x in comp_f.own_nodes():
        pair = None
        loopvars = set()
        if isinstance(x, (ast.ListComp, ast.GeneratorExp)) and isinstance(x.elt, ast.Tuple) and len(x.elt.elts) == 2:
            pair = x.elt
            loopvars = {y.id for g in x.generators for y in ast.walk(g.target) if isinstance(y, ast.Name)}
        elif isinstance(x, ast.For):
            loopvars = {y.id for y in ast.walk(x.target) if isinstance(y, ast.Name)}
            for st in ast.walk(ast.Module(body=x.body, type_ignores=[])):
                if isinstance(st, ast.Call) and isinstance(st.func, ast.Attribute) and st.func.attr == "append" and st.args and isinstance(st.args[0], ast.Tuple) and len(st.args[0].elts) == 2:
                    pair = st.args[0]
        if pair is None or not loopvars:
            continue
        n8 += 1
        key_names = {y.id for y in ast.walk(pair.elts[0]) if isinstance(y, ast.Name)}
        desc = f"pair key `{unparse(pair.elts[0], 40)}` depends on the loop variable"
        if key_names & loopvars:
            rep.ok(rule, comp_f.qname, desc, comp_f.loc(pair))
        else:
            rep.bad(rule, comp_f.qname, desc, comp_f.loc(pair), [f"{comp_f.loc(pair)}: the key `{unparse(pair.elts[0], 50)}` is the same for every element of `{unparse(x.generators[0].iter if hasattr(x, 'generators') else x.iter, 40)}`"],
                    stmt_key(pair), what="argument hashes are combined under one constant key: bindings that permute the values share a signature")
    return n8



def _mentions_kind(f: Func, test: ast.AST, kind: str) -> bool:
    """the test names the parameter kind, directly or through a boolean local (`is_var_positional = p.kind == Parameter.VAR_POSITIONAL`)"""
    for x in ast.walk(test):
        if isinstance(x, ast.Attribute) and x.attr == kind:
            return True
        if isinstance(x, ast.Name) and isinstance(x.ctx, ast.Load):
            for st in f.own_nodes():
                if isinstance(st, (ast.Assign, ast.AnnAssign)) and st.value is not None:
                    tg = st.targets[0] if isinstance(st, ast.Assign) else st.target
                    if isinstance(tg, ast.Name) and tg.id == x.id and isinstance(st.value, (ast.Compare, ast.BoolOp, ast.UnaryOp)) \
                            and any(isinstance(y, ast.Attribute) and y.attr == kind for y in ast.walk(st.value)):
                        return True
    return False


def star_args_bound_whole(ctx: Ctx, rule: str) -> int:
    """A binder that accepts `*args` parameters (its refusal test on the parameter kind lets Parameter.VAR_POSITIONAL through) binds to such a
    parameter ALL the remaining positional arguments: under a test on VAR_POSITIONAL it consumes the slice `<positional>[idx:]`.  Binding
    only `<positional>[idx]` leaves the second and later values out of the signature: g(1, 2) and g(1, 3) share it."""
    rep = ctx.report
    prog = ctx.prog
    rt, lit = binders(ctx)
    n = 0
    for f in (rt, lit):
        loop = _param_loop(f)
        if loop is None:
            continue
        idx_var, _names12, _pv12 = _param_names(loop)
        pos = f.positional_params()[1] if len(f.positional_params()) > 1 else None
        # the kinds the binder lets through: the tuple of `Parameter.<KIND>` it tests the parameter's kind against - written in the test, held in a local or a
        # module constant, or handed to a checking helper
        def kind_sets(nodes) -> List[set]:
            out = []
            for y in nodes:
                if isinstance(y, (ast.Tuple, ast.List, ast.Set)) and y.elts and all(isinstance(e, ast.Attribute) and unparse(e.value).split(".")[-1] == "Parameter" for e in y.elts):
                    out.append({e.attr for e in y.elts})
            return out
        sets_ = kind_sets(f.own_nodes())
        for y in f.own_nodes():
            if isinstance(y, ast.Name) and isinstance(y.ctx, ast.Load) and not prog.is_local(f, y.id):
                for st_ in f.module.assigns.get(y.id, []):
                    v_ = getattr(st_, "value", None)
                    if v_ is not None:
                        sets_ += kind_sets(ast.walk(v_))
        sets_ = [s_ for s_ in sets_ if "POSITIONAL_OR_KEYWORD" in s_]
        if not sets_:
            # the kinds may be tested one by one (`is_plain = p.kind == Parameter.POSITIONAL_OR_KEYWORD` ... `if not (is_plain or is_var_keyword or ..): raise`)
            one_by_one = {y.comparators[0].attr for y in ast.walk(loop) if isinstance(y, ast.Compare) and len(y.ops) == 1 and isinstance(y.ops[0], (ast.Eq, ast.Is))
                          and isinstance(y.left, ast.Attribute) and y.left.attr == "kind" and isinstance(y.comparators[0], ast.Attribute)
                          and unparse(y.comparators[0].value).split(".")[-1] == "Parameter"}
            if "POSITIONAL_OR_KEYWORD" in one_by_one:
                sets_ = [one_by_one]
        accepted = set().union(*sets_) if sets_ else None
        if accepted is None:
            continue
        n += 1
        desc = f"{f.name}: a *args parameter binds all the remaining positional arguments"
        if "VAR_POSITIONAL" not in accepted:
            rep.ok(rule, f.qname, f"{f.name}: *args parameters are refused (accepted kinds {sorted(accepted)})", f.loc(loop))
            continue
        ok_site = None
        for st in ast.walk(loop):
            if isinstance(st, ast.If) and _mentions_kind(f, st.test, "VAR_POSITIONAL"):
                for y in ast.walk(ast.Module(body=st.body, type_ignores=[])):
                    if isinstance(y, ast.Subscript) and isinstance(y.slice, ast.Slice) and y.slice.upper is None and isinstance(y.value, ast.Name) and y.value.id == pos \
                            and y.slice.lower is not None and idx_var and any(isinstance(z, ast.Name) and z.id == idx_var for z in ast.walk(y.slice.lower)):
                        ok_site = y
        if ok_site is not None:
            rep.ok(rule, f.qname, desc + f" (`{unparse(ok_site, 30)}`)", f.loc(ok_site))
            # ... and the binding is a constant only when EVERY one of these arguments is: abstract evaluation of the expression that chooses between "no hash" and the hash
            # of the collected hashes, on sample collections (one unknown among known ones -> no hash)
            for st in ast.walk(loop):
                if not (isinstance(st, ast.If) and _mentions_kind(f, st.test, "VAR_POSITIONAL")):
                    continue
                for asg in [y for y in ast.walk(ast.Module(body=st.body, type_ignores=[])) if isinstance(y, ast.Assign) and isinstance(y.value, ast.IfExp)]:
                    hashed = [y for y in ast.walk(asg.value) if isinstance(y, ast.Call) and (prog.dotted(f, y.func) or "").endswith("dds_hash") and y.args and isinstance(y.args[0], ast.Name)]
                    if not hashed:
                        continue
                    rv = hashed[0].args[0].id
                    n += 1
                    d2 = f"{f.name}: `{unparse(asg.value, 60)}` gives no hash as soon as one of the *args values is not a constant"
                    samples = [([None, "h"], True), (["h", None], True), ([None, None], True), (["h1", "h2"], False), ([], False)]
                    wrong = []
                    for smp, want_none in samples:
                        env_ = Env()
                        env_.vars[rv] = Const(list(smp))
                        ev_ = Evaluator(prog, oracle=lambda name, a_, k_, nd_: Const("HASH") if name.endswith("dds_hash") else NOT_HANDLED_)
                        try:
                            v_ = ev_.eval(asg.value, env_, f)
                        except Exception as e_:
                            wrong = [f"not evaluated: {type(e_).__name__}: {e_}"]
                            break
                        is_none = isinstance(v_, Const) and v_.v is None
                        if is_none != want_none:
                            wrong.append(f"{rv} = {smp}: {'no hash' if is_none else 'a hash'} (expected {'no hash' if want_none else 'a hash'})")
                    if wrong and wrong[0].startswith("not evaluated"):
                        rep.unknown(rule, f.qname, d2, f.loc(asg), wrong)
                    elif wrong:
                        rep.bad(rule, f.qname, d2, f.loc(asg), wrong + ["`dds.keep('/stats', collect, 1, scale)` with `def collect(*vals)`: the literal 1 and the variable `scale` are hashed as a "
                                "constant binding: changing the value behind `scale` keeps the signature and serves the stale result"], stmt_key(asg),
                                what="a *args binding that mixes literals and run-time values is keyed as a constant")
                    else:
                        rep.ok(rule, f.qname, d2, f.loc(asg))
        else:
            rep.bad(rule, f.qname, desc, f.loc(loop), [f"{f.loc(loop)}: Parameter.VAR_POSITIONAL is among the accepted kinds {sorted(accepted)} but no branch on it consumes `{pos}[{idx_var}:]`",
                    "`def g(*vals): return dds.keep('/p', ident, vals)`: g(1, 2) and g(1, 3) bind only the first value to `vals`: same signature, the second call is served (1, 2)"],
                    "star-args-first-only", what="a *args parameter is bound to the first of its values only")
    return n


def pair_values_rule(ctx: Ctx, rule: str) -> int:
    """every comprehension of the composer over `<mapping>.items()` that yields (key, hash) pairs builds the hash part from the VALUE variable
    of the loop: hashing the key a second time makes the entry a constant - what the name resolves to no longer matters"""
    rep = ctx.report
    from .roles import composer as _role_composer
    comp_f = _role_composer(ctx)
    n = 0
    class _G:  # a comprehension generator or a `for` statement over <mapping>.items()
        def __init__(self, target, it):
            self.target, self.iter = target, it
    sites = []
    for x in comp_f.own_nodes():
        if isinstance(x, (ast.ListComp, ast.GeneratorExp)) and isinstance(x.elt, ast.Tuple) and len(x.elt.elts) == 2 and len(x.generators) == 1:
            sites.append((x.generators[0], x.elt))
        elif isinstance(x, ast.For):
            # the loop form: `for (k, v) in m.items(): pairs.append((key, value))`
            for y in ast.walk(ast.Module(body=x.body, type_ignores=[])):
                if isinstance(y, ast.Call) and isinstance(y.func, ast.Attribute) and y.func.attr == "append" and y.args and isinstance(y.args[0], ast.Tuple) and len(y.args[0].elts) == 2:
                    sites.append((_G(x.target, x.iter), y.args[0]))
    for g, elt_ in sites:
        if not (isinstance(g.target, ast.Tuple) and len(g.target.elts) == 2 and all(isinstance(t, ast.Name) for t in g.target.elts)
                and isinstance(g.iter, ast.Call) and isinstance(g.iter.func, ast.Attribute) and g.iter.func.attr == "items"):
            continue
        kv, vv = g.target.elts[0].id, g.target.elts[1].id

        class _X:
            elt = elt_
        x = _X()
        n += 1
        val_names = {y.id for y in ast.walk(x.elt.elts[1]) if isinstance(y, ast.Name)}
        desc = f"pair value `{unparse(x.elt.elts[1], 40)}` of the entries of `{unparse(g.iter.func.value, 30)}` depends on the mapping's value `{vv}`"
        if vv in val_names:
            rep.ok(rule, comp_f.qname, desc, comp_f.loc(x.elt))
        else:
            rep.bad(rule, comp_f.qname, desc, comp_f.loc(x.elt), [f"{comp_f.loc(x.elt)}: the entry `{unparse(x.elt, 70)}` does not use `{vv}` (what `{kv}` stands for in `{unparse(g.iter.func.value, 30)}`)",
                    "`from extlib import lowest as pick` re-pointed to `highest as pick`: the text of the pipeline function is unchanged, the entry of `pick` is hashed from its "
                    "name alone, every signature stays the same and the result computed with the old callee is served"], stmt_key(x.elt),
                    what="a dependency entry of the signature is built from its key alone: re-pointing the name changes no signature")
    return n


def run(ctx: Ctx) -> None:
    rep = ctx.report
    prog = ctx.prog
    rt, lit = binders(ctx)
    rep.rule("C13.R1", "sibling skeleton: inspect.signature, full iteration, positional / keyword / default in that order")
    rep.rule("C13.R2", "hashed expression == the bound value (identity on None / falsy / truthy); hasher is dds_hash itself")
    rep.rule("C13.R3", "the (name, hash) append post-dominates the loop body; keyed by the parameter's name")
    skeleton: Dict[str, Any] = {}
    n2 = 0
    for f in (rt, lit):
        loop = _param_loop(f)
        where = f.loc()
        if loop is None:
            rep.unknown("C13.R1", f.qname, "parameter loop not found", where)
            continue
        # (a) parameter source
        sig_calls = [n for n in f.own_nodes() if isinstance(n, ast.Call) and (prog.dotted(f, n.func) or "").startswith("inspect.")]
        src = sorted({prog.dotted(f, n.func) for n in sig_calls if (prog.dotted(f, n.func) or "") in (
            "inspect.signature", "inspect.getfullargspec", "inspect.getargspec", "inspect.getcallargs")})
        skeleton[f.qname] = {"source": src}
        desc = "parameters are read with inspect.signature(f) and all of them are iterated"
        wit = []
        if src != ["inspect.signature"]:
            wit.append(f"parameter source {src}: inspect.getfullargspec does not follow __wrapped__ (a functools.wraps decorated callee binds nothing) and orders parameters differently")
        it = unparse(loop.iter)
        if "parameters.items()" not in it and "parameters.values()" not in it and src == ["inspect.signature"]:
            wit.append(f"{f.loc(loop)}: loop iterates `{it}` instead of <signature>.parameters.items() / .values()")
        for n in ast.walk(loop):
            if isinstance(n, (ast.Break, ast.Continue)):
                wit.append(f"{f.loc(n)}: `{type(n).__name__.lower()}` inside the parameter loop skips parameters")
        if wit:
            rep.bad("C13.R1", f.qname, desc, f.loc(loop), wit, "param-source", what=f"{f.name} does not bind all parameters of inspect.signature")
        else:
            rep.ok("C13.R1", f.qname, desc, f.loc(loop))
        skeleton[f.qname]["order"] = _sources(f, loop)
        skeleton[f.qname]["precedence"] = _precedence(ctx, f, loop)
        # ---- R2 hashing sites -------------------------------------------------------------------
        fl = flow_of(prog, f)
        scopes = [f] + list(f.nested.values())
        for g in scopes:
            for n in g.own_nodes():
                if not isinstance(n, ast.Call):
                    continue
                callee = prog.dotted(g, n.func) or ""
                if callee.startswith("dds.fun_args.") and callee != "dds.fun_args.dds_hash" and callee.split(".")[-1] not in ("get_option",) and n.args:
                    target = prog.funcs.get(callee)
                    reach = ctx.reachable_funcs([callee]) if target is not None else set()
                    if target is not None and "dds.fun_args.dds_hash" in reach:
                        n2 += 1
                        chain = [q for q in sorted(reach) if q.startswith("dds.fun_args.") and q != "dds.fun_args.dds_hash"
                                 and "dds.fun_args.dds_hash" in ctx.reachable_funcs([q]) and not q.startswith("dds.fun_args.dds_hash.")]
                        cached = [(q, [unparse(d) for d in prog.funcs[q].node.decorator_list if "cache" in unparse(d)]) for q in chain]
                        cached = [(q, d) for q, d in cached if d]
                        if cached:
                            rep.bad("C13.R2", g.qname, "values are hashed by dds_hash itself", g.loc(n),
                                    [f"{g.loc(n)}: `{unparse(n, 50)}` goes through {cached[0][0]}, memoised with {cached[0][1]}: the cache key identifies False / 0 / 0.0 and True / 1 / 1.0, "
                                     "so a default hashed earlier in the process is served for an equal value of another type"], stmt_key(n),
                                    what="argument values are hashed through a memo keyed by equality")
                        else:
                            rep.ok("C13.R2", g.qname, f"`{unparse(n, 40)}` hashes through un-memoised helper(s) {chain}", g.loc(n))
                        _site(ctx, g, n, n.args[0])
                    continue
                if callee != "dds.fun_args.dds_hash" or not n.args:
                    continue
                n2 += 1
                _site(ctx, g, n, n.args[0])
        # ---- R3 --------------------------------------------------------------------------------
        cfg = cfg_of(f)
        # the pair is recorded by `pairs.append((name, h))` or by `table[name] = h`
        appends: List[ast.AST] = [n for n in ast.walk(loop) if isinstance(n, ast.Call) and isinstance(n.func, ast.Attribute) and n.func.attr == "append"]
        appends += [n for n in ast.walk(loop) if isinstance(n, ast.Assign) and len(n.targets) == 1 and isinstance(n.targets[0], ast.Subscript)
                    and isinstance(n.targets[0].value, ast.Name)]
        desc = "every iteration of the parameter loop records a (name, hash) pair"
        loops = [x for x in cfg.nodes if x.kind == "loop" and x.ast is loop]
        tb = [x for x in cfg.nodes if x.kind == "branch" and x.ast is loop and x.label == "T"]
        app_nodes = [x for a in appends for x in cfg.nodes_of(a)]
        p = cfg.find_path(tb, loops, avoid=app_nodes) if tb and loops else None
        if not appends:
            rep.unknown("C13.R3", f.qname, "no append / keyed store in the parameter loop", f.loc(loop))
        elif p is None:
            a0 = appends[0]
            if isinstance(a0, ast.Call):
                tup = a0.args[0] if a0.args else None
                key_expr = tup.elts[0] if isinstance(tup, ast.Tuple) and tup.elts else None
            else:
                tup = a0.targets[0]  # type: ignore
                key_expr = a0.targets[0].slice  # type: ignore
            target = loop.target
            pname = None
            if isinstance(target, ast.Tuple) and len(target.elts) == 2 and isinstance(target.elts[1], ast.Tuple) and isinstance(target.elts[1].elts[0], ast.Name):
                pname = target.elts[1].elts[0].id
            _i3, names3, pvars3 = _param_names(loop)
            if pname is not None:
                names3 = names3 | {pname}
            keyed = key_expr is not None and (any(isinstance(x, ast.Name) and x.id in names3 for x in ast.walk(key_expr))
                                              or any(isinstance(x, ast.Attribute) and x.attr == "name" and isinstance(x.value, ast.Name) and x.value.id in pvars3 for x in ast.walk(key_expr)))
            if keyed:
                rep.ok("C13.R3", f.qname, desc + ", keyed by the parameter's own name", f.loc(a0))
            else:
                rep.bad("C13.R3", f.qname, "pairs are keyed by the parameter's own name", f.loc(a0), [f"recorded `{unparse(tup, 60)}`"], "pair-key", what="argument hashes are not keyed by parameter name")
        else:
            rep.bad("C13.R3", f.qname, desc, f.loc(loop), witness_path(cfg, f, p), "skip-param", what="a parameter can be left out of the binding")
    rep.floor("C13.R2", n2, 6)

    # ---- R4: a call seen in source is bound on its own argument nodes ---------------------------------------------
    rep.rule("C13.R4", "the literal binder receives the argument nodes of the call itself; a name among them is replaced by a value of the module "
                       "namespace only where the name was found not to be a local variable")
    n4 = 0
    for g in list(prog.funcs.values()):
        for n in g.own_nodes():
            if not (isinstance(n, ast.Call) and (prog.dotted(g, n.func) or "") == lit.qname):
                continue
            n4 += 1
            desc = f"`{unparse(n, 60)}` binds the call's own argument nodes"
            bad_item = None
            dropped = None
            for a in list(n.args[1:]) + [k.value for k in n.keywords]:
                sl = ctx.slicer(follow_calls=True).slice(g, a)
                flt = sl.find(lambda f_, x: (isinstance(x, (ast.ListComp, ast.GeneratorExp, ast.DictComp)) and any(gen.ifs for gen in x.generators))
                              or (isinstance(x, ast.Call) and isinstance(x.func, ast.Name) and x.func.id == "filter"))
                if flt is not None and dropped is None:
                    dropped = flt
                for it in sl.find_all(lambda f_, x: f_.module.name == "dds._retrieve_objects"):
                    # the function that consulted the resolver: last item of the chain outside the resolver module
                    cur = it
                    while cur is not None and cur.func.module.name == "dds._retrieve_objects":
                        cur = cur.parent
                    if cur is None:
                        continue
                    h = cur.func
                    lookups = [c for c in h.own_nodes() if isinstance(c, ast.Call) and isinstance(c.func, ast.Attribute) and c.func.attr in ("retrieve_object", "retrieve_object_global")]
                    guards = [b for b in cfg_of(h).nodes if b.kind == "branch" and isinstance(b.ast, ast.Compare) and len(b.ast.ops) == 1
                              and "var_names" in unparse(b.ast.comparators[0])
                              and ((isinstance(b.ast.ops[0], ast.In) and b.label == "F") or (isinstance(b.ast.ops[0], ast.NotIn) and b.label == "T"))]
                    from .common import dominated
                    if not lookups or not guards or any(dominated(ctx, h, c, guards) is not None for c in lookups):
                        bad_item = it
                        break
                if bad_item is not None:
                    break
            empty_args = len(n.args) > 1 and isinstance(n.args[1], (ast.List, ast.Tuple)) and not n.args[1].elts
            if empty_args:
                rep.bad("C13.R4", g.qname, "the binder is given the arguments of the call being analysed", g.loc(n), [
                    f"{g.loc(n)}: `{unparse(n, 70)}` binds the call as if it had no argument: every parameter that has a default is keyed by that default, and when all "
                    "of them have one the call-site context is not used either",
                    "`def helper(x=3): return dds.keep('/p', g, x)`: the evaluations of `helper(5)` and of `helper(6)` give the inner keep one key: the second returns the "
                    "result of the first (10 instead of 12)"], stmt_key(n) + "noargs", what="a plain call seen in source is bound without its arguments: its defaults stand for the values passed")
            elif dropped is not None:
                rep.bad("C13.R4", g.qname, "every argument node of the call reaches the binder (none is filtered out)", g.loc(n), dropped.chain() + [
                    f"`{unparse(dropped.node, 70)}` removes argument nodes before the binding: a `*xs` argument that used to make the binding unknown (call keyed by its "
                    "call-site context) disappears, the parameters it would have bound take their defaults, and `keep(p, f, *xs)` is keyed as `f()`"],
                    stmt_key(n) + "filter", what="argument nodes of a kept call are dropped before the binding")
            elif bad_item is None:
                rep.ok("C13.R4", g.qname, desc, g.loc(n))
            else:
                rep.bad("C13.R4", g.qname, desc, g.loc(n), bad_item.chain() + [
                    "an argument that is a Name is looked up in the module namespace without checking that it is not a parameter / local variable of the "
                    "function being analysed: `def pipeline(batch): dds.keep(p, f, batch)` with a module constant `batch = 3` is keyed as f(3) for every value of batch"],
                    stmt_key(n), what="a local variable passed to a kept call is hashed as the module constant of the same name")
    rep.floor("C13.R4", n4, 1)

    # ---- R9: every literal is a literal -------------------------------------------------------------------------------
    rep.rule("C13.R9", "the literal binder hashes `node.value` for every ast.Constant node: the isinstance test that guards it names ast.Constant itself "
                       "(ast.NameConstant / Num / Str only match some constants: the others fall back to the call-site key, and the same call gets another "
                       "signature when made directly)")
    n9 = 0
    for g_ in [lit] + list(lit.nested.values()) + [h_ for h_ in prog.module("dds.fun_args").funcs.values() if h_ is not lit and h_ is not rt]:
        for x in g_.own_nodes():
            if isinstance(x, ast.Call) and (prog.dotted(g_, x.func) or "") == "dds.fun_args.dds_hash" and x.args and isinstance(x.args[0], ast.Attribute) and x.args[0].attr == "value":
                gcfg = cfg_of(g_)
                tests = [b for b in gcfg.nodes if b.kind == "branch" and isinstance(b.ast, ast.Call) and unparse(b.ast.func) == "isinstance" and len(b.ast.args) == 2]
                n9 += 1
                names = set()
                from .common import dominated as _dom9
                for b in tests:
                    if b.label == "T" and _dom9(ctx, g_, x, [b]) is None:
                        t_ = b.ast.args[1]
                        names |= {unparse(e_).split(".")[-1] for e_ in (t_.elts if isinstance(t_, ast.Tuple) else [t_])}
                    if b.label == "F":
                        # guard-clause form: `if not isinstance(node, T): return None`
                        others = [o for o in gcfg.nodes if o.kind == "branch" and o.origin is b.origin and o.label == "T"]
                        if _dom9(ctx, g_, x, [b]) is None and False:
                            pass
                desc = f"{g_.name}: `{unparse(x, 40)}` is reached for every ast.Constant"
                if not names:
                    rep.info("C13.R9", g_.qname, "the hashing of `.value` is not guarded by an isinstance test that was understood (not judged)", g_.loc(x))
                elif "Constant" in names:
                    rep.ok("C13.R9", g_.qname, desc, g_.loc(x))
                else:
                    rep.bad("C13.R9", g_.qname, desc, g_.loc(x), [f"{g_.loc(x)}: guarded by isinstance(.., {sorted(names)})",
                            "`ast.NameConstant` only matches True / False / None: number and string literals of a kept call seen in source are left unknown, the call is keyed by its "
                            "call site, and `dds.eval(pipeline)` then a direct `dds.keep(p, scale, 21, 'kg')` compute twice"], stmt_key(x), what="only some literal kinds are hashed from the source")
    rep.floor("C13.R9", n9, 1)

    # ---- R7: a default is a run-time value: both binders hash it with the value hasher itself ----------------------------
    rep.rule("C13.R7", "in both binders the default of an omitted parameter is hashed by dds_hash (not by the literal-node helper, which answers None for "
                       "anything that is not an AST constant)")
    n7 = 0
    for bf in (rt, lit):
        members_ = [bf] + list(bf.nested.values())
        for g_ in members_:
            for x in g_.own_nodes():
                if isinstance(x, ast.Attribute) and x.attr == "default" and isinstance(x.ctx, ast.Load):
                    par = g_.module.parent.get(x)
                    if isinstance(par, ast.Assign) and par.value is x and len(par.targets) == 1 and isinstance(par.targets[0], ast.Name):
                        # through a local copy: the call that receives the copy
                        fl7 = flow_of(prog, g_)
                        for y in g_.own_nodes():
                            if isinstance(y, ast.Call) and any(isinstance(a, ast.Name) and any(d.stmt is par for d in fl7.root_defs(a)) for a in y.args if isinstance(a, ast.Name) and cfg_of(g_).nodes_of(a)):
                                par = y
                                x = [a for a in y.args if isinstance(a, ast.Name)][0]
                                break
                    if isinstance(par, ast.Call) and x in par.args:
                        n7 += 1
                        callee = prog.dotted(g_, par.func) or unparse(par.func)
                        desc = f"{bf.name}: `{unparse(par, 40)}` hashes the default with the value hasher"
                        if callee == "dds.fun_args.dds_hash":
                            rep.ok("C13.R7", g_.qname, desc, g_.loc(par))
                        else:
                            rep.bad("C13.R7", g_.qname, desc, g_.loc(par), [f"{g_.loc(par)}: the default goes through `{unparse(par.func)}`",
                                    "a kept call in source that omits a defaulted parameter gets an unknown binding (keyed by its call site) while the explicit-default spelling "
                                    "and the direct call are keyed by the binding: equal bindings, different signatures"], stmt_key(par), what="the default of an omitted parameter is not hashed like a passed value")
    rep.floor("C13.R7", n7, 1)

    rep.rule("C13.R8", "in the signature composer every comprehension / loop that yields (key, hash) pairs builds the key from its loop variable (a constant "
                       "key makes the xor combiner forget which parameter holds which value: f(2, 9) == f(9, 2), and equal pairs cancel)")
    n8 = pair_keys_rule(ctx, "C13.R8")
    rep.floor("C13.R8", n8, 3)

    # ---- R6: distinct string values get distinct hashes ------------------------------------------------------------
    from .c05 import algo_preimage_rule
    rep.rule("C13.R6", "as C05.R8: the digest helpers hash the bound value itself (no strip / case folding / replace before hashlib): bindings that differ "
                       "by trailing whitespace or a line ending get different signatures")
    n6_ = algo_preimage_rule(ctx, "C13.R6")
    rep.floor("C13.R6", n6_, 2)

    # ---- R5: a ** mapping at the call seen in source is an unknown binding, never "argument omitted" -----------------
    rep.rule("C13.R5", "literal binder: the default value of a parameter is taken only under the outcome 'the call has no ** mapping' "
                       "(the keyword table built from ast.keyword carries it under the key None)")
    n5 = 0
    lcfg = cfg_of(lit)
    kw_param = lit.params[2] if len(lit.params) > 2 else "kwargs"
    no_mapping = []
    for b in lcfg.nodes:
        if b.kind == "branch" and isinstance(b.ast, ast.Compare) and len(b.ast.ops) == 1 and isinstance(b.ast.left, ast.Constant) and b.ast.left.value is None \
                and isinstance(b.ast.comparators[0], ast.Name) and b.ast.comparators[0].id == kw_param:
            if (isinstance(b.ast.ops[0], ast.In) and b.label == "F") or (isinstance(b.ast.ops[0], ast.NotIn) and b.label == "T"):
                no_mapping.append(b)
    # the same test held in a local: `has_mapping = None in kwargs` ... `elif has_mapping:`
    lfl = flow_of(prog, lit)
    for b in lcfg.nodes:
        if b.kind == "branch" and isinstance(b.ast, ast.Name):
            ds = lfl.root_defs(b.ast)
            if len(ds) == 1 and isinstance(ds[0].value, ast.Compare):
                c = ds[0].value
                if len(c.ops) == 1 and isinstance(c.left, ast.Constant) and c.left.value is None and isinstance(c.comparators[0], ast.Name) and c.comparators[0].id == kw_param:
                    if (isinstance(c.ops[0], ast.In) and b.label == "F") or (isinstance(c.ops[0], ast.NotIn) and b.label == "T"):
                        no_mapping.append(b)
    from .common import dominated as _dom
    for n in lit.own_nodes():
        if isinstance(n, ast.Attribute) and n.attr == "default" and isinstance(lit.module.parent.get(n), ast.Call):
            call = lit.module.parent.get(n)
            if n not in call.args:
                continue
            n5 += 1
            desc = f"`{unparse(call, 40)}` (parameter omitted -> default) is reached only when the call has no ** mapping"
            # (b) the call sites filter / reject the ** form themselves
            sites_ok = True
            for g in prog.funcs.values():
                for c in g.own_nodes():
                    if isinstance(c, ast.Call) and (prog.dotted(g, c.func) or "") == lit.qname:
                        gcfg = cfg_of(g)
                        gb = [b for b in gcfg.nodes if b.kind == "branch" and isinstance(b.ast, ast.Compare) and isinstance(b.ast.left, ast.Attribute) and b.ast.left.attr == "arg"
                              and isinstance(b.ast.comparators[0], ast.Constant) and b.ast.comparators[0].value is None
                              and ((isinstance(b.ast.ops[0], ast.Is) and b.label == "F") or (isinstance(b.ast.ops[0], ast.IsNot) and b.label == "T"))]
                        if not gb or _dom(ctx, g, c, gb) is not None:
                            sites_ok = False
            w = _dom(ctx, lit, call, no_mapping) if no_mapping else ["no test of `None in " + kw_param + "` in the binder"]
            if w is None or sites_ok:
                rep.ok("C13.R5", lit.qname, desc, lit.loc(call))
            else:
                rep.bad("C13.R5", lit.qname, desc, lit.loc(call), w + [
                    "`opts = {'a': 5}; dds.keep('/p', f, **opts)` with `def f(a=0, b=1)`: ast.keyword(arg=None) is not a parameter name, every parameter takes its "
                    "default and the call is keyed as f(): a later direct `dds.keep('/p', f)` is served the blob computed with a=5"],
                    "default-under-mapping", what="a kept call seen in source with a ** mapping is bound as if the arguments were omitted")
    rep.floor("C13.R5", n5, 1)
    from .c05 import no_module_memo
    rep.rule("C13.R11", "the binders read the parameters of the function they are given, every time: no module-level memo (of signatures, of bindings) is consulted")
    no_module_memo(ctx, "C13.R11", "a signature memo keyed by the function's name survives its redefinition: after `def f(x, k=1)` was used and f redefined with `k=2`, the call f(x) "
                                   "is still bound with the old default and served the old result")
    rep.rule("C13.R12", "a binder that accepts *args parameters binds all the remaining positional arguments to them (the slice from the parameter's index on), not the first one only")
    n12 = star_args_bound_whole(ctx, "C13.R12")
    rep.floor("C13.R12", n12, 2)
    if rep.prop == "C13":
        from .c05 import pinned_preimages as _pp
        rep.rule("C13.R17", "as C03.R9: bindings that differ in a value get different signatures because different values are digested from different (the pinned) bytes - dictionary "
                            "keys included (`{1: 'x'}` and `{'1': 'x'}` differ)")
        n17 = _pp(ctx, "C13.R17")
        rep.floor("C13.R17", n17, 25)
        from .c01 import composer_components as _cc
        rep.rule("C13.R18", "as C01.R1: a call discovered in source whose argument is a module variable is keyed by the value of that variable: the call-site context holds the tracked "
                            "variables of the enclosing function")
        _cc(ctx, "C13.R18")
    if rep.prop == "C13":
        from .c05 import pinned_combinations
        rep.rule("C13.R14", "as C03.R15: the combiner of the (key, hash) pairs is the pinned one (exclusive-or of the digests, rendered as pinned): calls that bind a different value get a "
                            "different signature also when the signature has many components (an `or` of digests saturates: the contribution of one argument is covered by the others)")
        n14 = pinned_combinations(ctx, "C13.R14")
        rep.floor("C13.R14", n14, 6)
        from .c01 import pairs_distinct
        rep.rule("C13.R15", "as C01.R11: the call-site context of a kept call with run-time arguments holds the input signature of the enclosing function (its binding): no component "
                            "is written twice in place of another one")
        n15 = pairs_distinct(ctx, "C13.R15")
        rep.floor("C13.R15", n15, 1)
    if rep.prop == "C13":
        from .common import forwarding_complete
        rep.rule("C13.R13", "as C01.R21: `*args` and `**kwargs` are handed over together on the way from the user's call to the binder")
        n13 = forwarding_complete(ctx, "C13.R13", "a keyword argument dropped by a wrapper is not part of the binding: f(10, factor=5) and f(10) share a signature")
        rep.floor("C13.R13", n13, 4)
    rep.rule("C13.R16", "a class used as a kept callable is keyed by the binding of its constructor's arguments also when it has no method (NamedTuple / dataclass style)")
    n16 = class_binding_in_signature(ctx, "C13.R16")
    rep.floor("C13.R16", n16, 1)
    from .c05 import falsy_distinct
    rep.rule("C13.R10", "calls that bind a different value get a different signature, falsy values included: None, 0, 0.0, \"\", [] and {} are digested from different bytes")
    n10 = falsy_distinct(ctx, "C13.R10")
    rep.floor("C13.R10", n10, 6)
    a, b = skeleton.get(rt.qname, {}), skeleton.get(lit.qname, {})
    desc = "both binders choose the value source in the order positional, keyword, default"
    pa, pb = a.get("precedence", ("unknown", [])), b.get("precedence", ("unknown", []))
    if a.get("order") == b.get("order") == ["positional", "keyword", "default"] and pa[0] != "bad" and pb[0] != "bad":
        rep.ok("C13.R1", f"{rt.name} ~ {lit.name}", desc, rt.loc())
    elif pa[0] == "ok" and pb[0] == "ok":
        # another textual order of the tests with the same precedence (decided propositionally: positional, else keyword, else default)
        rep.ok("C13.R1", f"{rt.name} ~ {lit.name}", desc + " (precedence decided on the CFG)", rt.loc())
    elif pa[0] == "bad" or pb[0] == "bad":
        rep.bad("C13.R1", f"{rt.name} ~ {lit.name}", desc, rt.loc(), pa[1] + pb[1], "order",
                what="the two argument binders resolve positional / keyword / default differently")
    else:
        rep.bad("C13.R1", f"{rt.name} ~ {lit.name}", desc, rt.loc(), [f"{rt.name}: {a.get('order')}", f"{lit.name}: {b.get('order')}"], "order",
                what="the two argument binders resolve positional / keyword / default differently")
    if a.get("source") == b.get("source"):
        rep.ok("C13.R1", f"{rt.name} ~ {lit.name}", f"both read parameters with {a.get('source')}", rt.loc())
    else:
        rep.bad("C13.R1", f"{rt.name} ~ {lit.name}", "both binders read parameters the same way", lit.loc(), [f"{rt.name}: {a.get('source')}", f"{lit.name}: {b.get('source')}"],
                "source-differs", what="direct calls and calls seen in source bind parameters with different inspection functions")


def _site(ctx: Ctx, g: Func, call: ast.Call, arg: ast.AST) -> None:
    """classify the hashed expression: must be the bound value itself"""
    rep = ctx.report
    where = g.loc(call)
    if isinstance(arg, ast.Name):
        ds = flow_of(ctx.prog, g).defs_of_use(arg)
        if len(ds) == 1 and ds[0].kind == "assign" and ds[0].value is not None:
            arg = ds[0].value
    kind, base = _classify(arg)
    desc = f"hashing site `{unparse(call, 50)}` hashes the bound value unchanged"
    if kind is not None:
        rep.ok("C13.R2", g.qname, desc + f" ({kind})", where)
        return
    # the values of a *args parameter: each remaining positional argument, through a helper of the binder that has its own hashing site
    if isinstance(arg, (ast.ListComp, ast.GeneratorExp)) and len(arg.generators) == 1 and not arg.generators[0].ifs and isinstance(arg.generators[0].target, ast.Name):
        gen = arg.generators[0]
        it_kind, _b = _classify(gen.iter)
        helpers = set(g.nested) | (set(g.parent.nested) if getattr(g, "parent", None) is not None else set())
        if isinstance(arg.elt, ast.Call) and isinstance(arg.elt.func, ast.Name):
            # ... or a helper of the binders' module (it has its own hashing site, judged there)
            fs_, _ = ctx.prog.callees(g, arg.elt, ctx._types)
            if fs_ and all(h_.module is g.module for h_ in fs_):
                helpers.add(arg.elt.func.id)
        if it_kind == "positional" and isinstance(gen.iter, ast.Subscript) and isinstance(gen.iter.slice, ast.Slice) and isinstance(arg.elt, ast.Call) \
                and isinstance(arg.elt.func, ast.Name) and arg.elt.func.id in helpers and len(arg.elt.args) == 1 and isinstance(arg.elt.args[0], ast.Name) \
                and arg.elt.args[0].id == gen.target.id:
            rep.ok("C13.R2", g.qname, desc + f" (every remaining positional argument, each through `{arg.elt.func.id}`)", where)
            return
    # abstract evaluation of the normaliser on the three classes
    srcs = [n for n in ast.walk(arg) if _classify(n)[0] is not None]
    if not srcs:
        whole = [n for n in ast.walk(arg) if isinstance(n, ast.Name) and n.id in ("args", "kwargs") and n.id in g.params]
        if whole:
            rep.bad("C13.R2", g.qname, desc, where, [f"{where}: `{unparse(arg, 60)}` hashes the whole `{whole[0].id}` collection where the value bound to one parameter is expected",
                    "the signature then depends on how the other arguments are spelled: f(a=1, b=2), f(b=2, a=1) and f(1, b=2) get three signatures, none equal to the one "
                    "computed from the same call seen in source"], stmt_key(call), what=f"the whole `{whole[0].id}` collection is hashed in place of one bound value")
            return
        rep.info("C13.R2", g.qname, f"hashing site `{unparse(call, 50)}` does not hash a bound argument", where)
        return
    src = srcs[0]
    key = ast.dump(src)
    res = {}
    for label, sym in (("None", Sym("v", none=True, truthy=False)), ("falsy non-None (0, '', False)", Sym("v", none=False, truthy=False)),
                       ("truthy", Sym("v", none=False, truthy=True))):

        class Sub(ast.NodeTransformer):
            def generic_visit(self, node):  # type: ignore
                if ast.dump(node) == key:
                    return ast.Name(id="__v__", ctx=ast.Load())
                return super().generic_visit(node)

        import copy
        e2 = Sub().visit(copy.deepcopy(arg))
        ast.fix_missing_locations(e2)
        env = Env()
        env.vars["__v__"] = sym
        try:
            v = Evaluator(ctx.prog).eval(e2, env, g)
        except Exception:
            v = TOP
        res[label] = "identity" if v is sym else (repr(v))
    if all(v == "identity" for v in res.values()):
        rep.ok("C13.R2", g.qname, desc + " (normaliser is the identity on None / falsy / truthy)", where)
    elif any(v == "TOP" for v in res.values()):
        rep.unknown("C13.R2", g.qname, f"normaliser `{unparse(arg, 60)}` not evaluated: {res}", where)
    else:
        rep.bad("C13.R2", g.qname, desc, where,
                [f"{where}: `{unparse(arg, 70)}` maps {res}", "other hashing sites hash the value itself: f() and f(<default>) differ for a falsy default; "
                 "defaults 0, '' and None collide; a literal None in source differs from None at run time"], stmt_key(call),
                what=f"`{unparse(arg, 40)}` replaces None / falsy values before hashing")


def _classify(e: ast.AST) -> Tuple[Optional[str], Optional[ast.AST]]:
    if isinstance(e, ast.Subscript) and isinstance(e.value, ast.Name):
        if e.value.id == "args":
            return "positional", e
        if e.value.id == "kwargs":
            return "keyword", e
    if isinstance(e, ast.Attribute) and e.attr == "default":
        return "default", e
    if isinstance(e, ast.Attribute) and e.attr == "value" and isinstance(e.value, ast.Name):
        return "literal", e
    return None, None


def class_binding_in_signature(ctx: Ctx, rule: str) -> int:
    """The signature that the class inspector returns for `Cls(args..)` depends on the binding of the constructor's arguments also when the class has no
    method to carry it (NamedTuple / dataclass style): outside the loop over the methods, the argument context reaches the returned `fun_return_sig`."""
    from ..flow import flow_of
    rep = ctx.report
    prog = ctx.prog
    f = prog.func("dds.introspect.InspectFunction.inspect_class")
    if f is None:
        raise AnchorError("dds.introspect.InspectFunction.inspect_class not found")
    a = f.node.args
    ctx_params = [x.arg for x in a.posonlyargs + a.args + a.kwonlyargs if x.annotation is not None and "FunctionArgContext" in unparse(x.annotation, 100)]
    if not ctx_params:
        raise AnchorError("inspect_class has no FunctionArgContext parameter")
    ap = ctx_params[0]
    fl = flow_of(prog, f)
    loops = [x for x in f.own_nodes() if isinstance(x, (ast.For, ast.While))]
    in_loop = {id(y) for lp in loops for b_ in lp.body for y in ast.walk(b_)}
    n = 0
    for r in f.own_nodes():
        if not (isinstance(r, ast.Return) and isinstance(r.value, ast.Call)):
            continue
        kws = {k.arg: k.value for k in r.value.keywords}
        v = kws.get("fun_return_sig")
        if v is None:
            continue
        n += 1
        # expressions the returned signature is computed from, outside the method loop
        seen, work, hit = set(), [v], False
        while work:
            e = work.pop()
            if id(e) in seen:
                continue
            seen.add(id(e))
            for y in ast.walk(e):
                if isinstance(y, ast.Name) and isinstance(y.ctx, ast.Load):
                    if y.id == ap and id(y) not in in_loop:
                        hit = True
                    try:
                        ds = fl.defs_of_use(y)
                    except Exception:
                        ds = []
                    for d in ds:
                        if d.value is not None and id(d.value) not in in_loop and id(d.stmt) not in in_loop:
                            work.append(d.value)
        desc = "the signature of a class depends on the binding of the constructor's arguments, with or without methods"
        if hit:
            rep.ok(rule, f.qname, desc, f.loc(r))
        else:
            rep.bad(rule, f.qname, desc, f.loc(r), [f"{f.loc(r)}: `fun_return_sig={unparse(v, 40)}` is computed from the class body and the method inspections only; `{ap}` reaches it "
                    "only through the loop over the methods", "`class Pt(NamedTuple): x: int; y: int = 0`: dds.keep('/pt', Pt, 1) then dds.keep('/pt', Pt, 2) returns Pt(x=1, y=0): the "
                    "two calls bind different values and share a signature"], "class-binding", what="the constructor arguments of a class without methods are not part of its signature")
    return n


def _kind_names(f: Func, e: ast.AST, depth: int = 0) -> Set[str]:
    """the parameter kinds an expression names (`Parameter.KEYWORD_ONLY`, a tuple of kinds, a local / module name bound to one)"""
    out: Set[str] = set()
    if isinstance(e, ast.Attribute) and e.attr.isupper():
        return {e.attr}
    if isinstance(e, (ast.Tuple, ast.List, ast.Set)):
        for x in e.elts:
            out |= _kind_names(f, x, depth)
        return out
    if isinstance(e, ast.Name) and depth < 2:
        for g in [f] + ([f.parent] if getattr(f, "parent", None) is not None else []):
            for st in g.own_nodes():
                if isinstance(st, (ast.Assign, ast.AnnAssign)) and st.value is not None:
                    tg = st.targets[0] if isinstance(st, ast.Assign) else st.target
                    if isinstance(tg, ast.Name) and tg.id == e.id:
                        out |= _kind_names(f, st.value, depth + 1)
        for st in f.module.assigns.get(e.id, []):
            v = getattr(st, "value", None)
            if v is not None:
                out |= _kind_names(f, v, depth + 1)
    return out


def _is_empty_display(f: Func, e: ast.AST) -> bool:
    if isinstance(e, (ast.Tuple, ast.List, ast.Set)):
        return not e.elts
    if isinstance(e, ast.Name):
        vals = [st.value for st in f.own_nodes() if isinstance(st, (ast.Assign, ast.AnnAssign)) and st.value is not None
                and isinstance((st.targets[0] if isinstance(st, ast.Assign) else st.target), ast.Name) and (st.targets[0] if isinstance(st, ast.Assign) else st.target).id == e.id]
        return bool(vals) and all(isinstance(v, (ast.Tuple, ast.List, ast.Set)) and not v.elts for v in vals)
    return False


def _precedence(ctx: Ctx, f: Func, loop: ast.For) -> Tuple[str, List[str]]:
    """The value bound to an ordinary parameter is taken from the positional arguments if there is one at its index, else from the keyword of its name, else
    from its default - whatever the textual order of the tests.  Decided propositionally on the CFG: with atoms `pos` (index < number of positional arguments) and
    `kw` (name among the keywords), the keyword site cannot be reached when pos, the default site neither when pos nor when kw, and each site can be reached in
    its own case.  ('ok' | 'bad' | 'unknown', witnesses)"""
    from ..propdom import excluding_branches
    prog = ctx.prog
    ps = f.positional_params()
    if len(ps) < 3:
        return "unknown", ["binder without (f, args, kwargs) parameters"]
    pos_p, kw_p = ps[1], ps[2]
    idx_var, name_var = _loop_vars(loop)
    # the parameter object and the expressions that denote its name
    param_vars = set()
    t = loop.target
    if isinstance(t, ast.Tuple) and len(t.elts) == 2:
        second = t.elts[1]
        if isinstance(second, ast.Tuple) and len(second.elts) == 2 and isinstance(second.elts[1], ast.Name):
            param_vars.add(second.elts[1].id)
        elif isinstance(second, ast.Name):
            if "enumerate" in unparse(loop.iter):
                param_vars.add(second.id)
                if isinstance(t.elts[0], ast.Name):
                    idx_var = idx_var or t.elts[0].id
            else:
                param_vars.add(second.id)
    names = {name_var} if name_var else set()
    for st in ast.walk(loop):
        if isinstance(st, (ast.Assign, ast.AnnAssign)) and st.value is not None:
            tg = st.targets[0] if isinstance(st, ast.Assign) and len(st.targets) == 1 else (st.target if isinstance(st, ast.AnnAssign) else None)
            if isinstance(tg, ast.Name):
                if isinstance(st.value, ast.Name) and st.value.id in param_vars:
                    param_vars.add(tg.id)
                if isinstance(st.value, ast.Attribute) and st.value.attr == "name" and isinstance(st.value.value, ast.Name) and st.value.value.id in param_vars:
                    names.add(tg.id)
                if isinstance(st.value, ast.Name) and st.value.id in names:
                    names.add(tg.id)
    if not idx_var or not (names or param_vars):
        return "unknown", ["index / name variables of the parameter loop not recognised"]

    def is_name(e: ast.AST) -> bool:
        return (isinstance(e, ast.Name) and e.id in names) or (isinstance(e, ast.Attribute) and e.attr == "name" and isinstance(e.value, ast.Name) and e.value.id in param_vars)

    def atom(e: ast.AST) -> Optional[str]:
        if isinstance(e, ast.Compare) and len(e.ops) == 1:
            l, r, op = e.left, e.comparators[0], e.ops[0]
            if isinstance(op, (ast.Lt, ast.LtE, ast.Gt, ast.GtE)):
                if isinstance(l, ast.Name) and l.id == idx_var:
                    return "pos" if isinstance(op, (ast.Lt, ast.LtE)) else "!pos"
                if isinstance(r, ast.Name) and r.id == idx_var:
                    return "pos" if isinstance(op, (ast.Gt, ast.GtE)) else "!pos"
            if isinstance(op, (ast.In, ast.NotIn)) and is_name(l) and isinstance(r, ast.Name) and r.id == kw_p:
                return "kw" if isinstance(op, ast.In) else "!kw"
            # "the parameter cannot be given by position" (keyword-only): `p.kind == KEYWORD_ONLY`, `p.kind in <kinds that hold KEYWORD_ONLY but no positional kind>`
            if isinstance(l, ast.Attribute) and l.attr == "kind" and isinstance(l.value, ast.Name) and l.value.id in param_vars:
                ks = _kind_names(f, r)
                if not ks and isinstance(op, (ast.In, ast.NotIn)) and _is_empty_display(f, r):
                    return "never" if isinstance(op, ast.In) else "!never"
                if ks and isinstance(op, (ast.Eq, ast.NotEq, ast.In, ast.NotIn, ast.Is, ast.IsNot)):
                    positive = isinstance(op, (ast.Eq, ast.In, ast.Is))
                    if ks <= {"KEYWORD_ONLY", "VAR_KEYWORD", "VAR_POSITIONAL"}:
                        # a kind that is not given by position at its index (keyword-only, *args, **kwargs): not the ordinary parameter the precedence is about
                        return "kwonly" if positive else "!kwonly"
                    if ks <= {"POSITIONAL_ONLY", "POSITIONAL_OR_KEYWORD"}:
                        # the ordinary kinds: the world of the precedence rule is a parameter of such a kind
                        return "!kwonly" if positive else "kwonly"
        return None
    # sites
    pos_sites = [y for y in ast.walk(loop) if isinstance(y, ast.Subscript) and isinstance(y.value, ast.Name) and y.value.id == pos_p and not isinstance(y.slice, ast.Slice)
                 and any(isinstance(z, ast.Name) and z.id == idx_var for z in ast.walk(y.slice))]
    kw_sites = [y for y in ast.walk(loop) if isinstance(y, ast.Subscript) and isinstance(y.value, ast.Name) and y.value.id == kw_p and is_name(y.slice)]
    df_sites = [y for y in ast.walk(loop) if isinstance(y, ast.Attribute) and y.attr == "default" and isinstance(y.value, ast.Name) and y.value.id in param_vars
                and isinstance(f.module.parent.get(y), ast.Call)]
    if not (pos_sites and kw_sites and df_sites):
        return "unknown", [f"value sites not recognised (positional {len(pos_sites)}, keyword {len(kw_sites)}, default {len(df_sites)})"]
    cfg = cfg_of(f)
    kinds_false: Dict[str, bool] = {}
    for y in f.own_nodes():
        if isinstance(y, ast.Compare) and len(y.ops) == 1 and isinstance(y.ops[0], (ast.Eq, ast.NotEq)) and ("VAR_KEYWORD" in unparse(y) or "VAR_POSITIONAL" in unparse(y)):
            kinds_false[ast.unparse(ast.Compare(left=y.left, ops=[ast.Eq()], comparators=y.comparators))] = False

    def reach(site: ast.AST, world: Dict[str, bool]) -> bool:
        w = dict(kinds_false)
        w["kwonly"] = False  # an ordinary parameter: it can be given by position
        w["never"] = False  # membership in an empty collection
        w.update(world)
        st = prog.enclosing_stmt(f.module, site)
        return cfg.find_path([cfg.entry], cfg.nodes_of(st), avoid=excluding_branches(prog, f, cfg, w, atom)) is not None
    wit: List[str] = []
    for s_ in kw_sites:
        if reach(s_, {"pos": True}):
            wit.append(f"{f.loc(s_)}: the keyword value `{unparse(s_, 30)}` can be taken although a positional argument stands at the parameter's index")
        if not reach(s_, {"pos": False, "kw": True}):
            wit.append(f"{f.loc(s_)}: the keyword value `{unparse(s_, 30)}` is not taken when the parameter is given by keyword only")
    for s_ in df_sites:
        if reach(s_, {"pos": True}):
            wit.append(f"{f.loc(s_)}: the default `{unparse(s_, 30)}` can be taken although a positional argument stands at the parameter's index")
        if reach(s_, {"pos": False, "kw": True}):
            wit.append(f"{f.loc(s_)}: the default `{unparse(s_, 30)}` can be taken although the parameter is given by keyword")
        if not reach(s_, {"pos": False, "kw": False}):
            wit.append(f"{f.loc(s_)}: the default `{unparse(s_, 30)}` is not taken when the parameter is given neither by position nor by keyword")
    for s_ in pos_sites:
        if not reach(s_, {"pos": True}):
            wit.append(f"{f.loc(s_)}: the positional value `{unparse(s_, 30)}` is not taken when there is one")
    return ("bad", wit) if wit else ("ok", [])
