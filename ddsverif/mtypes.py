"""
Static type facts from mypy used as a *library* (mypy 1.5.1 is a dev dependency of the
repository and is present in /venv).  Two facts only are exported:

* the static type of an expression (is this iterable a set? is this receiver a Store?),
* through that, the class on which a member call is made.

Third-party imports are skipped (mypy 1.5.1 crashes on numpy 2.x stubs), which turns those
values into ``Any``: facts become unavailable, never wrong.
"""
from __future__ import annotations

import ast
import os
import sys
from typing import Dict, List, Optional, Tuple, Any

from .model import AnalysisError

SKIP = ["numpy", "pandas", "pyarrow", "IPython", "pydotplus", "asttokens", "pyspark"]

SET_TYPES = {
    "builtins.set", "builtins.frozenset", "typing.AbstractSet", "typing.Set", "typing.FrozenSet",
    "typing.MutableSet", "collections.abc.Set", "collections.abc.MutableSet",
}


class Types:
    def __init__(self, sources: Dict[str, Tuple[str, str, bool]], repo: str):
        self.available = False
        self.error: Optional[str] = None
        self.by_pos: Dict[str, Dict[Tuple[int, int, int, int], Any]] = {}
        self.n_exprs = 0
        try:
            self._run(sources, repo)
            self.available = True
        except AnalysisError:
            raise
        except BaseException as e:  # mypy internal errors are SystemExit / arbitrary
            self.error = f"{type(e).__name__}: {e}"

    def _run(self, sources: Dict[str, Tuple[str, str, bool]], repo: str) -> None:
        from mypy import build
        from mypy.options import Options
        from mypy.modulefinder import BuildSource

        o = Options()
        o.preserve_asts = True
        o.export_types = True
        o.incremental = False
        o.cache_dir = os.devnull
        o.check_untyped_defs = True
        o.ignore_missing_imports = True
        o.follow_imports = "silent"
        for m in SKIP:
            for pat in (m, m + ".*"):
                oo = o.per_module_options.setdefault(pat, {})
                oo["follow_imports"] = "skip"
                oo["ignore_missing_imports"] = True
        srcs = [
            BuildSource(os.path.join(repo, rel), name, text, base_dir=repo)
            for name, (rel, text, _pkg) in sorted(sources.items())
        ]
        cwd = os.getcwd()
        try:
            os.chdir(repo)
            result = build.build(srcs, o)
        finally:
            os.chdir(cwd)
        types = result.types
        for name in sources:
            mf = result.files.get(name)
            if mf is None:
                continue
            table: Dict[Tuple[int, int, int, int], Any] = {}
            self.by_pos[name] = table
        # result.types holds every typed expression; index by module through node identity
        node_mod: Dict[int, str] = {}
        for name in sources:
            mf = result.files.get(name)
            if mf is None:
                continue
            self._collect(mf, name, node_mod)
        for e, t in types.items():
            mod = node_mod.get(id(e))
            if mod is None:
                continue
            el = getattr(e, "end_line", None)
            ec = getattr(e, "end_column", None)
            if el is None or ec is None:
                continue
            self.by_pos[mod][(e.line, e.column, el, ec)] = t
            self.n_exprs += 1
        self._keepalive = result
        self.errors: List[str] = list(getattr(result, "errors", []) or [])

    def _collect(self, mf: Any, name: str, node_mod: Dict[int, str]) -> None:
        from mypy.nodes import Node as MNode, Expression

        seen = set()
        stack: List[Any] = [mf]
        while stack:
            n = stack.pop()
            if id(n) in seen:
                continue
            seen.add(id(n))
            if isinstance(n, Expression):
                node_mod[id(n)] = name
            for attr in _child_attrs(type(n)):
                try:
                    v = getattr(n, attr)
                except Exception:
                    continue
                if isinstance(v, MNode):
                    stack.append(v)
                elif isinstance(v, (list, tuple)):
                    for x in v:
                        if isinstance(x, MNode):
                            stack.append(x)
                        elif isinstance(x, (list, tuple)):
                            for y in x:
                                if isinstance(y, MNode):
                                    stack.append(y)
                                elif isinstance(y, (list, tuple)):
                                    stack.extend(z for z in y if isinstance(z, MNode))

    # ------------------------------------------------------------------ queries
    def type_of(self, module: str, expr: ast.AST) -> Any:
        if not self.available:
            return None
        t = self.by_pos.get(module, {}).get(
            (expr.lineno, expr.col_offset, getattr(expr, "end_lineno", -1), getattr(expr, "end_col_offset", -1))
        )
        return t

    def fullnames(self, module: str, expr: ast.AST) -> Optional[List[str]]:
        """Instance type fullnames of the expression (union members flattened, None dropped). None = unknown."""
        t = self.type_of(module, expr)
        if t is None:
            return None
        return _fullnames(t)

    def receiver_class(self, module: str, expr: ast.AST) -> Optional[str]:
        fns = self.fullnames(module, expr)
        if not fns or len(fns) != 1:
            return None
        return fns[0]

    def is_set(self, module: str, expr: ast.AST) -> Optional[bool]:
        fns = self.fullnames(module, expr)
        if fns is None:
            return None
        if not fns:
            return None
        return any(f in SET_TYPES for f in fns)

    def describe(self, module: str, expr: ast.AST) -> str:
        t = self.type_of(module, expr)
        return str(t) if t is not None else "?"


_CHILD_ATTRS: Dict[type, List[str]] = {}


def _child_attrs(tp: type) -> List[str]:
    got = _CHILD_ATTRS.get(tp)
    if got is None:
        got = []
        for a in dir(tp):
            if a.startswith("_") or a in ("info", "type", "node", "fullname", "name", "names", "unanalyzed_type",
                                         "analyzed", "callee_type", "def_expr"):
                continue
            try:
                v = getattr(tp, a)
            except Exception:
                v = None
            if callable(v) or isinstance(v, property):
                continue
            got.append(a)
        # slots-based instance attributes
        for klass in tp.__mro__:
            for s in getattr(klass, "__slots__", ()):
                if s not in got and not s.startswith("_") and s not in (
                    "info", "type", "node", "unanalyzed_type", "callee_type", "def_expr", "analyzed"
                ):
                    got.append(s)
        _CHILD_ATTRS[tp] = got
    return got


def _fullnames(t: Any) -> Optional[List[str]]:
    from mypy.types import Instance, UnionType, NoneType, AnyType, TypeAliasType, TupleType, get_proper_type

    t = get_proper_type(t)
    if isinstance(t, AnyType):
        return None
    if isinstance(t, NoneType):
        return []
    if isinstance(t, Instance):
        return [t.type.fullname]
    if isinstance(t, TupleType):
        return [t.partial_fallback.type.fullname]
    if isinstance(t, UnionType):
        out: List[str] = []
        for it in t.items:
            sub = _fullnames(it)
            if sub is None:
                return None
            out += sub
        return sorted(set(out))
    return None
