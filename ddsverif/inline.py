"""
Normalisation of the API module by helper inlining (a syntax-tree transformation, nothing is executed).

The role-based rules (C01, C02, C04, C09, C10, C11, C15, C16 ...) reason on the flow graph of the two API
functions that call the user's function.  A refactoring can move that call (or the whole cached/compute
decision) into a private helper - `res = _call_fun(fun, path, args, kwargs)` - and the flow graph of the API
function then no longer shows the call, its `try` blocks or its early returns.  Rather than teach every rule
about helpers, the tree is normalised first: a private helper of the API module that (transitively) calls the
user's function is expanded at each of its call sites:

    res = _call_fun(fun, path, args, kwargs)      ==>     with __inline__('_call_fun'):
                                                               <parameter bindings>
                                                               <body, `return E` -> `res = E` + jump to block end>

The block is an `InlineBlock` (a subclass of ast.With, so every generic AST walk still works and `unparse`
prints something readable); `InlineJump` (a subclass of ast.Pass) is the jump to the end of the block.  The CFG
builder gives both their control-flow meaning, including `finally` bodies of the helper on the way out.  The
copied statements keep their original line numbers: reports cite the helper's real source lines, and mypy facts
(indexed by position) stay valid.

Conditions for inlining H (all of them, else H is left alone and the rules see it as an ordinary callee):
  * H is a module-level, undecorated, non-generator, non-recursive function whose name starts with '_';
  * H is role-bearing: it calls one of its own parameters with *args / **kwargs (the user's function), an
    analysis entry point imported from the introspection modules or a method of the Store interface, or declares a
    module global (sets / drops the evaluation context) - or calls such a helper;
  * H is not the top-level role itself (a function that assigns a declared module global a non-None value AND
    (transitively) calls the user's function); a pure setter / dropper of module state is inlined like any helper;
  * every reference to H in the package is a direct call that is the whole value of an expression statement,
    an assignment or a return, inside a module-level function of the same module - a private one when H
    (transitively) calls the user's function: the function a public entry point hands the evaluation to is
    a role anchor, not a helper.
When all call sites were expanded H is removed from the module (it is dead code).
"""
from __future__ import annotations

import ast
import copy
from typing import Dict, List, Optional, Set, Tuple


class InlineBlock(ast.With):
    _fields = ast.With._fields
    helper: str = ""


class InlineJump(ast.Pass):
    _fields = ()


# ast.unparse dispatches on the class name: print the two node kinds like the statements they derive from
if hasattr(ast, "_Unparser"):
    ast._Unparser.visit_InlineBlock = ast._Unparser.visit_With  # type: ignore[attr-defined]
    ast._Unparser.visit_InlineJump = ast._Unparser.visit_Pass  # type: ignore[attr-defined]

FuncDef = ast.FunctionDef


def _own_walk(node: ast.AST, into_lambdas: bool = True):
    """walk not entering nested function / class definitions"""
    stack = list(ast.iter_child_nodes(node))
    while stack:
        n = stack.pop()
        yield n
        if isinstance(n, (ast.FunctionDef, ast.AsyncFunctionDef, ast.ClassDef)):
            continue
        if not into_lambdas and isinstance(n, ast.Lambda):
            continue
        stack.extend(ast.iter_child_nodes(n))


def _params(fd: FuncDef) -> List[str]:
    a = fd.args
    ps = [x.arg for x in a.posonlyargs + a.args]
    if a.vararg:
        ps.append(a.vararg.arg)
    ps += [x.arg for x in a.kwonlyargs]
    if a.kwarg:
        ps.append(a.kwarg.arg)
    return ps


def _direct_user_call(fd: FuncDef, role_names: Set[str] = frozenset()) -> bool:  # type: ignore
    """the function calls one of its parameters with *args / **kwargs (the user's function), or performs one of
    the other role calls of an evaluation (an analysis entry point, a Store-interface method)"""
    ps = set(_params(fd))
    for n in _own_walk(fd):
        if not isinstance(n, ast.Call):
            continue
        if (
            isinstance(n.func, ast.Name) and n.func.id in ps
            and (any(isinstance(a, ast.Starred) for a in n.args) or any(k.arg is None for k in n.keywords))
        ):
            return True
        if isinstance(n.func, ast.Name) and n.func.id in role_names:
            return True
        if isinstance(n.func, ast.Attribute) and n.func.attr in role_names:
            return True
        if role_names and isinstance(n.func, ast.Name) and n.func.id in ps:
            return True  # a higher-order helper: what it does is decided by the callables its callers hand it
    if role_names and any(isinstance(n, ast.Global) for n in _own_walk(fd)):
        return True  # sets / drops module state of the API module (the evaluation-context global)
    return False


def _stmt_call(st: ast.stmt) -> Optional[ast.Call]:
    """the call that is the whole value of the statement"""
    v = None
    if isinstance(st, (ast.Expr, ast.Return)):
        v = st.value
    elif isinstance(st, ast.Assign) and len(st.targets) == 1 and isinstance(st.targets[0], (ast.Name, ast.Tuple, ast.List)):
        v = st.value
    elif isinstance(st, ast.AnnAssign) and isinstance(st.target, ast.Name):
        v = st.value
    return v if isinstance(v, ast.Call) else None


def _sets_global(fd: FuncDef) -> bool:
    gl: Set[str] = set()
    for n in _own_walk(fd):
        if isinstance(n, ast.Global):
            gl.update(n.names)
    if not gl:
        return False
    for n in _own_walk(fd):
        if isinstance(n, ast.Assign) and any(isinstance(t, ast.Name) and t.id in gl for t in n.targets):
            if not (isinstance(n.value, ast.Constant) and n.value.value is None):
                return True
    return False


def _locals(fd: FuncDef) -> Set[str]:
    out = set(_params(fd))
    declared: Set[str] = set()
    for n in _own_walk(fd, into_lambdas=False):
        if isinstance(n, (ast.Global, ast.Nonlocal)):
            declared.update(n.names)
        elif isinstance(n, ast.Name) and isinstance(n.ctx, (ast.Store, ast.Del)):
            out.add(n.id)
        elif isinstance(n, (ast.FunctionDef, ast.AsyncFunctionDef, ast.ClassDef)):
            out.add(n.name)
        elif isinstance(n, ast.ExceptHandler) and n.name:
            out.add(n.name)
        elif isinstance(n, (ast.Import, ast.ImportFrom)):
            for a in n.names:
                out.add(a.asname or a.name.split(".")[0])
    return (out - declared)


def _terminates(body: List[ast.stmt], jump_ok: bool = True) -> bool:
    """no path falls off the end of the statement list (syntactic, conservative: False when unsure)"""
    if not body:
        return False
    last = body[-1]
    if isinstance(last, (ast.Return, ast.Raise)):
        return True
    if isinstance(last, InlineJump):
        return jump_ok
    if isinstance(last, InlineBlock):
        return _terminates(last.body, False)  # its jumps only leave the inner block
    if isinstance(last, ast.If):
        return _terminates(last.body, jump_ok) and _terminates(last.orelse, jump_ok)
    if isinstance(last, ast.Try):
        if last.finalbody and _terminates(last.finalbody, jump_ok):
            return True
        return (_terminates(last.body, jump_ok) or (bool(last.orelse) and _terminates(last.orelse, jump_ok))) and all(
            _terminates(h.body, jump_ok) for h in last.handlers)
    if isinstance(last, (ast.With, ast.AsyncWith)):
        return _terminates(last.body, jump_ok)
    return False


class _Renamer(ast.NodeTransformer):
    def __init__(self, mapping: Dict[str, str]):
        self.mapping = mapping

    def visit_Name(self, node: ast.Name) -> ast.AST:
        if node.id in self.mapping:
            node.id = self.mapping[node.id]
        return node

    def visit_ExceptHandler(self, node: ast.ExceptHandler) -> ast.AST:
        if node.name and node.name in self.mapping:
            node.name = self.mapping[node.name]
        self.generic_visit(node)
        return node

    def visit_FunctionDef(self, node: ast.FunctionDef) -> ast.AST:
        if node.name in self.mapping:
            node.name = self.mapping[node.name]
        # a nested def's own parameters shadow: rename only free uses
        inner = {k: v for k, v in self.mapping.items() if k not in set(_params(node))}
        sub = _Renamer(inner)
        node.body = [sub.visit(s) for s in node.body]
        node.decorator_list = [self.visit(d) for d in node.decorator_list]
        return node

    def visit_Lambda(self, node: ast.Lambda) -> ast.AST:
        ps = {a.arg for a in node.args.posonlyargs + node.args.args + node.args.kwonlyargs}
        if node.args.vararg:
            ps.add(node.args.vararg.arg)
        if node.args.kwarg:
            ps.add(node.args.kwarg.arg)
        sub = _Renamer({k: v for k, v in self.mapping.items() if k not in ps})
        node.body = sub.visit(node.body)
        return node


class _ReturnRewriter(ast.NodeTransformer):
    """`return E` -> <the call statement with the call replaced by E> ; jump"""

    def __init__(self, shape: ast.stmt, call: ast.Call):
        self.shape = shape
        self.call = call

    def _instantiate(self, value: Optional[ast.AST], at: ast.AST) -> List[ast.stmt]:
        v = value if value is not None else ast.copy_location(ast.Constant(value=None), at)
        sh = self.shape
        new: Optional[ast.stmt]
        if isinstance(sh, ast.Return):
            new = ast.Return(value=v)
            ast.copy_location(new, at)
            return [new]
        if isinstance(sh, ast.Expr):
            new = ast.Expr(value=v) if any(isinstance(x, (ast.Call, ast.Await)) for x in ast.walk(v)) else None
        elif isinstance(sh, ast.Assign):
            new = ast.Assign(targets=[copy.deepcopy(t) for t in sh.targets], value=v, type_comment=None)
        else:
            assert isinstance(sh, ast.AnnAssign)
            new = ast.AnnAssign(target=copy.deepcopy(sh.target), annotation=copy.deepcopy(sh.annotation), value=v, simple=sh.simple)
        out: List[ast.stmt] = []
        if new is not None:
            ast.copy_location(new, at)
            ast.fix_missing_locations(new)
            out.append(new)
        j = InlineJump()
        ast.copy_location(j, at)
        out.append(j)
        return out

    def visit_Return(self, node: ast.Return):  # type: ignore
        return self._instantiate(node.value, node)

    def visit_FunctionDef(self, node):  # type: ignore
        return node

    def visit_AsyncFunctionDef(self, node):  # type: ignore
        return node

    def visit_Lambda(self, node):  # type: ignore
        return node

    def visit_ClassDef(self, node):  # type: ignore
        return node


def _bind(fd: FuncDef, call: ast.Call) -> Optional[List[Tuple[str, ast.AST]]]:
    """parameter -> argument expression (defaults filled in); None when the call shape is not understood"""
    a = fd.args
    pos = [x.arg for x in a.posonlyargs + a.args]
    binds: Dict[str, ast.AST] = {}
    i = 0
    rest: List[ast.AST] = []
    for arg in call.args:
        if isinstance(arg, ast.Starred):
            if a.vararg is None or i < len(pos):
                return None
            rest.append(arg)
            continue
        if i < len(pos):
            binds[pos[i]] = arg
            i += 1
        elif a.vararg is not None:
            rest.append(arg)
        else:
            return None
    if a.vararg is not None:
        if len(rest) == 1 and isinstance(rest[0], ast.Starred):
            binds[a.vararg.arg] = rest[0].value
        else:
            t = ast.Tuple(elts=list(rest), ctx=ast.Load())
            ast.copy_location(t, call)
            binds[a.vararg.arg] = t
    kwrest: List[ast.keyword] = []
    names = set(pos) | {x.arg for x in a.kwonlyargs}
    for k in call.keywords:
        if k.arg is None:
            if a.kwarg is None:
                return None
            kwrest.append(k)
        elif k.arg in names and k.arg not in binds:
            binds[k.arg] = k.value
        elif a.kwarg is not None:
            kwrest.append(k)
        else:
            return None
    if a.kwarg is not None:
        if len(kwrest) == 1 and kwrest[0].arg is None:
            binds[a.kwarg.arg] = kwrest[0].value
        else:
            d = ast.Dict(keys=[ast.Constant(value=k.arg) if k.arg else None for k in kwrest], values=[k.value for k in kwrest])
            ast.copy_location(d, call)
            ast.fix_missing_locations(d)
            binds[a.kwarg.arg] = d
    defaults = dict(zip(reversed(pos), reversed(a.defaults)))
    for p in pos:
        if p not in binds:
            if p not in defaults:
                return None
            binds[p] = copy.deepcopy(defaults[p])
    for x, dflt in zip(a.kwonlyargs, a.kw_defaults):
        if x.arg not in binds:
            if dflt is None:
                return None
            binds[x.arg] = copy.deepcopy(dflt)
    order = _params(fd)
    return [(p, binds[p]) for p in order if p in binds]


def _assigned(fd: FuncDef) -> Set[str]:
    out: Set[str] = set()
    for n in _own_walk(fd, into_lambdas=False):
        if isinstance(n, ast.Name) and isinstance(n.ctx, (ast.Store, ast.Del)):
            out.add(n.id)
        elif isinstance(n, ast.ExceptHandler) and n.name:
            out.add(n.name)
    return out


def _expand(caller: FuncDef, st: ast.stmt, call: ast.Call, fd: FuncDef, serial: int, fun_names: Set[str] = frozenset()) -> Optional[InlineBlock]:  # type: ignore
    """fun_names: names that are bound once, to a function definition, where the call is (module-level functions, nested
    definitions of the caller): a parameter that receives such a name and is never reassigned *is* that function - it is
    renamed instead of bound, so that the expanded body calls the function by its own name"""
    binds = _bind(fd, call)
    if binds is None:
        return None
    caller_names: Set[str] = set(_params(caller))
    for n in ast.walk(caller):
        if isinstance(n, ast.Name):
            caller_names.add(n.id)
    hl = _locals(fd)
    assigned = _assigned(fd)
    mapping: Dict[str, str] = {}
    skip_bind: Set[str] = set()
    for p, e in binds:
        if isinstance(e, ast.Name) and e.id == p and p not in assigned:
            skip_bind.add(p)  # same name, never reassigned: the caller's variable is the parameter
    suffix = f"__{fd.name.strip('_')}{serial if serial else ''}"
    for x in sorted(hl):
        if x in skip_bind:
            continue
        if x in caller_names:
            mapping[x] = x + suffix
    for p, e in binds:
        if p not in skip_bind and isinstance(e, ast.Name) and e.id in fun_names and p not in assigned:
            called = any(isinstance(n, ast.Call) and isinstance(n.func, ast.Name) and n.func.id == p for n in _own_walk(fd))
            if called:
                mapping[p] = e.id
                skip_bind.add(p)
    body = [copy.deepcopy(s) for s in fd.body]
    if body and isinstance(body[0], ast.Expr) and isinstance(body[0].value, ast.Constant) and isinstance(body[0].value.value, str):
        body = body[1:]
    rn = _Renamer(mapping)
    body = [rn.visit(s) for s in body]
    pre: List[ast.stmt] = []
    for p, e in binds:
        if p in skip_bind:
            continue
        tgt = ast.Name(id=mapping.get(p, p), ctx=ast.Store())
        asg = ast.Assign(targets=[tgt], value=copy.deepcopy(e), type_comment=None)
        ast.copy_location(asg, call)
        ast.fix_missing_locations(asg)
        asg._inline_bind = True  # type: ignore[attr-defined]
        pre.append(asg)
    rw = _ReturnRewriter(st, call)
    new_body: List[ast.stmt] = []
    for s in body:
        r = rw.visit(s)
        if isinstance(r, list):
            new_body += r
        elif r is not None:
            new_body.append(r)
    if not _terminates(new_body):
        new_body += rw._instantiate(None, st)[:-1] if not isinstance(st, ast.Return) else rw._instantiate(None, st)
    marker = ast.Call(func=ast.Name(id="__inline__", ctx=ast.Load()), args=[ast.Constant(value=fd.name)], keywords=[])
    blk = InlineBlock(items=[ast.withitem(context_expr=marker, optional_vars=None)], body=pre + new_body, type_comment=None)
    blk.helper = fd.name
    ast.copy_location(blk, st)
    ast.fix_missing_locations(blk)
    return blk


def _replace_stmt(root: ast.AST, old: ast.stmt, new: ast.stmt) -> bool:
    for n in ast.walk(root):
        for fld in ("body", "orelse", "finalbody"):
            lst = getattr(n, fld, None)
            if isinstance(lst, list):
                for i, s in enumerate(lst):
                    if s is old:
                        lst[i] = new
                        return True
        if isinstance(n, ast.Try):
            for h in n.handlers:
                for i, s in enumerate(h.body):
                    if s is old:
                        h.body[i] = new
                        return True
    return False


def normalise(tree: ast.Module, protected: Set[str], role_names: Set[str] = frozenset()) -> List[str]:  # type: ignore
    """Inline user-call-bearing private helpers of the module in place; returns a log of what was done."""
    log: List[str] = []
    for _round in range(6):
        funcs: Dict[str, FuncDef] = {st.name: st for st in tree.body if isinstance(st, ast.FunctionDef)}
        # statement-level call sites and other references
        sites: Dict[str, List[Tuple[FuncDef, ast.stmt, ast.Call]]] = {h: [] for h in funcs}
        other_refs: Dict[str, int] = {h: 0 for h in funcs}
        call_funcs_seen: Set[int] = set()
        for top in tree.body:
            if isinstance(top, ast.FunctionDef):
                for n in _own_walk(top, into_lambdas=False):
                    if isinstance(n, ast.stmt):
                        c = _stmt_call(n)
                        if c is not None and isinstance(c.func, ast.Name) and c.func.id in funcs:
                            sites[c.func.id].append((top, n, c))
                            call_funcs_seen.add(id(c.func))
        for n in ast.walk(tree):
            if isinstance(n, ast.Name) and n.id in funcs and isinstance(n.ctx, ast.Load) and id(n) not in call_funcs_seen:
                other_refs[n.id] += 1
        def closure(seed: Set[str]) -> Set[str]:
            out = set(seed)
            changed = True
            while changed:
                changed = False
                for h, ss in sites.items():
                    if h in out:
                        for (caller, _st, _c) in ss:
                            if caller.name not in out:
                                out.add(caller.name)
                                changed = True
            return out

        bearing = closure({h for h, fd in funcs.items() if _direct_user_call(fd, role_names)})
        user_bearing = closure({h for h, fd in funcs.items() if _direct_user_call(fd)})
        cand = []
        for h, fd in funcs.items():
            if not h.startswith("_") or h in protected or h not in bearing:
                continue
            if fd.decorator_list or (_sets_global(fd) and h in user_bearing) or not sites[h] or other_refs[h]:
                continue  # the function that sets the context global AND runs the user's function is the top-level role itself
            if any(isinstance(n, (ast.Yield, ast.YieldFrom, ast.Await)) for n in _own_walk(fd)):
                continue
            if any(caller is fd for caller, _s, _c in sites[h]):
                continue
            if h in user_bearing and not all(caller.name.startswith("_") for caller, _s, _c in sites[h]):
                continue  # the function a public entry point delegates the whole evaluation to is a role anchor
            # leaf first: H must not itself contain a call site of another candidate-to-be (handled next round)
            cand.append(h)
        # leaves: candidates that do not call another candidate
        leaves = [h for h in cand if not any(caller is funcs[h] and g in cand for g in cand for caller, _s, _c in sites[g])]
        if not leaves:
            break
        done_any = False
        for h in leaves:
            fd = funcs[h]
            blocks = []
            for serial, (caller, st, c) in enumerate(sites[h]):
                fun_names = (set(funcs) | {n.name for n in ast.walk(caller) if isinstance(n, ast.FunctionDef) and n is not caller}) - _assigned(caller)
                blk = _expand(caller, st, c, fd, serial, fun_names)
                if blk is None:
                    blocks = []
                    break
                blocks.append((caller, st, blk))
            if not blocks:
                log.append(f"{h}: call shape not understood, left as a callee")
                protected = protected | {h}
                continue
            for caller, st, blk in blocks:
                if not _replace_stmt(caller, st, blk):
                    raise RuntimeError(f"inline: statement of {caller.name} not found")
            tree.body.remove(fd)
            done_any = True
            log.append(f"{h} inlined into {', '.join(sorted({c.name for c, _s, _b in blocks}))}")
        if not done_any:
            break
    if role_names:
        log += _inline_nested(tree, role_names)
    return log


def _free_names(fd: FuncDef) -> Set[str]:
    loc = _locals(fd)
    return {n.id for n in ast.walk(fd) if isinstance(n, ast.Name) and n.id not in loc}


def _inline_nested(tree: ast.Module, role_names: Set[str]) -> List[str]:
    """Second phase: closures.  A function defined in the body of a module-level function and called from it (or from a
    sibling closure) at statement level is expanded like a private helper when it is role-bearing (it calls a role name,
    or a sibling closure that does), is not recursive, not decorated, not a generator, declares no `nonlocal`, and is
    referenced by direct statement-level calls only.  Its free variables are the enclosing function's variables: they
    mean the same thing at the call site (a sibling closure is a call site only if none of them is shadowed there)."""
    log: List[str] = []
    module_funs = {st.name for st in tree.body if isinstance(st, ast.FunctionDef)}
    for top in [st for st in tree.body if isinstance(st, ast.FunctionDef)]:
        for _round in range(6):
            nested: Dict[str, FuncDef] = {st.name: st for st in top.body if isinstance(st, ast.FunctionDef)}
            if not nested:
                break
            scopes: List[FuncDef] = [top] + list(nested.values())
            sites: Dict[str, List[Tuple[FuncDef, ast.stmt, ast.Call]]] = {h: [] for h in nested}
            seen: Set[int] = set()
            for sc in scopes:
                for n in _own_walk(sc, into_lambdas=False):
                    if isinstance(n, ast.stmt):
                        c = _stmt_call(n)
                        if c is not None and isinstance(c.func, ast.Name) and c.func.id in nested:
                            sites[c.func.id].append((sc, n, c))
                            seen.add(id(c.func))
            other = {h: 0 for h in nested}
            for n in ast.walk(top):
                if isinstance(n, ast.Name) and n.id in nested and id(n) not in seen:
                    other[n.id] += 1
            bearing = {h for h, fd in nested.items() if any(
                isinstance(n, ast.Call) and ((isinstance(n.func, ast.Name) and n.func.id in role_names) or (isinstance(n.func, ast.Attribute) and n.func.attr in role_names))
                for n in _own_walk(fd))}
            changed = True
            while changed:
                changed = False
                for h, ss in sites.items():
                    if h in bearing:
                        for (sc, _st, _c) in ss:
                            if sc is not top and sc.name not in bearing:
                                bearing.add(sc.name)
                                changed = True
            cand = []
            for h, fd in nested.items():
                if h not in bearing or fd.decorator_list or not sites[h] or other[h]:
                    continue
                if any(isinstance(n, (ast.Yield, ast.YieldFrom, ast.Await, ast.Nonlocal, ast.Global)) for n in _own_walk(fd)):
                    continue
                if any(sc is fd for sc, _s, _c in sites[h]):
                    continue
                free = _free_names(fd)
                if any(sc is not top and (free & (_locals(sc) - {h})) for sc, _s, _c in sites[h]):
                    continue
                cand.append(h)
            leaves = [h for h in cand if not any(sc is nested[h] and g in cand for g in cand for sc, _s, _c in sites[g])]
            if not leaves:
                break
            done_any = False
            for h in leaves:
                fd = nested[h]
                blocks = []
                for serial, (sc, st, c) in enumerate(sites[h]):
                    fun_names = (module_funs | set(nested)) - _assigned(sc) - _assigned(top)
                    blk = _expand(sc, st, c, fd, serial, fun_names)
                    if blk is None:
                        blocks = []
                        break
                    blocks.append((sc, st, blk))
                if not blocks:
                    continue
                for sc, st, blk in blocks:
                    if not _replace_stmt(sc, st, blk):
                        raise RuntimeError(f"inline: statement of {sc.name} not found")
                top.body.remove(fd)
                done_any = True
                log.append(f"closure {top.name}.{h} inlined into {', '.join(sorted({c.name for c, _s, _b in blocks}))}")
            if not done_any:
                break
    return log


def _is_cm_decorator(d: ast.AST) -> bool:
    return (isinstance(d, ast.Name) and d.id == "contextmanager") or (isinstance(d, ast.Attribute) and d.attr == "contextmanager")


def expand_context_managers(tree: ast.Module, known: Set[str]) -> List[str]:
    """`with _cm(args) as v: BODY` where `_cm` is a module-level generator decorated with contextlib.contextmanager that the
    reference tree does not have, with a single `yield` that is a statement of its body (or of a `try` that is a statement of
    its body) and no `return`: replaced by

        <statements before the yield> ; v = <yielded value> ; BODY ; <statements after the yield>

    (inside the same `try` when the yield was in one).  This is what the with statement does: an exception of BODY is
    raised at the yield, so the statements after it run only when BODY completes, `finally` / `except` clauses around it
    apply to BODY."""
    log: List[str] = []
    cms: Dict[str, FuncDef] = {}
    for st in tree.body:
        if isinstance(st, ast.FunctionDef) and st.name not in known and len(st.decorator_list) == 1 and _is_cm_decorator(st.decorator_list[0]):
            ys = [n for n in _own_walk(st) if isinstance(n, (ast.Yield, ast.YieldFrom))]
            if len(ys) != 1 or isinstance(ys[0], ast.YieldFrom) or any(isinstance(n, ast.Return) for n in _own_walk(st)):
                continue
            cms[st.name] = st
    if not cms:
        return log

    def is_yield_stmt(x: ast.stmt) -> bool:
        return (isinstance(x, ast.Expr) and isinstance(x.value, ast.Yield)) or (
            isinstance(x, (ast.Assign, ast.AnnAssign)) and isinstance(x.value, ast.Yield))

    def splice(body: List[ast.stmt], with_body: List[ast.stmt], var: Optional[ast.AST]) -> Optional[List[ast.stmt]]:
        for i, x in enumerate(body):
            if is_yield_stmt(x):
                y = x.value  # type: ignore
                mid: List[ast.stmt] = []
                if var is not None:
                    asg = ast.Assign(targets=[copy.deepcopy(var)], value=y.value if y.value is not None else ast.Constant(value=None), type_comment=None)
                    ast.copy_location(asg, x)
                    ast.fix_missing_locations(asg)
                    mid.append(asg)
                return body[:i] + mid + with_body + body[i + 1:]
            if isinstance(x, ast.Try):
                inner = splice(x.body, with_body, var)
                if inner is not None:
                    x.body = inner
                    return body
        return None

    serial = 0
    users: Dict[str, Set[str]] = {}
    for scope in [n for n in ast.walk(tree) if isinstance(n, ast.FunctionDef) and n.name not in cms]:
        changed = True
        while changed:
            changed = False
            for w in [n for n in _own_walk(scope, into_lambdas=False) if type(n) is ast.With]:
                if len(w.items) != 1:
                    continue
                c = w.items[0].context_expr
                if not (isinstance(c, ast.Call) and isinstance(c.func, ast.Name) and c.func.id in cms):
                    continue
                fd = cms[c.func.id]
                binds = _bind(fd, c)
                if binds is None:
                    continue
                serial += 1
                caller_names: Set[str] = set(_params(scope)) | {n.id for n in ast.walk(scope) if isinstance(n, ast.Name)}
                mapping = {x: f"{x}__{fd.name.strip('_')}{serial}" for x in sorted(_locals(fd)) if x in caller_names}
                body = [copy.deepcopy(x) for x in fd.body]
                if body and isinstance(body[0], ast.Expr) and isinstance(body[0].value, ast.Constant) and isinstance(body[0].value.value, str):
                    body = body[1:]
                rn = _Renamer(mapping)
                body = [rn.visit(x) for x in body]
                pre: List[ast.stmt] = []
                for p_, e_ in binds:
                    asg = ast.Assign(targets=[ast.Name(id=mapping.get(p_, p_), ctx=ast.Store())], value=copy.deepcopy(e_), type_comment=None)
                    ast.copy_location(asg, c)
                    ast.fix_missing_locations(asg)
                    pre.append(asg)
                new_body = splice(body, list(w.body), w.items[0].optional_vars)
                if new_body is None:
                    continue
                marker_ = ast.Call(func=ast.Name(id="__inline__", ctx=ast.Load()), args=[ast.Constant(value=fd.name)], keywords=[])
                blk = InlineBlock(items=[ast.withitem(context_expr=marker_, optional_vars=None)], body=pre + new_body, type_comment=None)
                blk.helper = fd.name
                ast.copy_location(blk, w)
                ast.fix_missing_locations(blk)
                if _replace_stmt(scope, w, blk):
                    users.setdefault(fd.name, set()).add(scope.name)
                    changed = True
                    break
    for name, us in sorted(users.items()):
        # the generator stays defined only if something else still mentions it
        if not any(isinstance(n, ast.Name) and n.id == name for n in ast.walk(tree)):
            tree.body.remove(cms[name])
        log.append(f"context manager {name} expanded in {', '.join(sorted(us))}")
    return log


def fingerprint(fd: ast.AST) -> str:
    """shape of a function with every identifier blanked (names, attributes, parameters, keywords, the function's own name): a renamed
    function - or one whose parameters were reordered - keeps its fingerprint"""
    import hashlib

    class _Blank(ast.NodeTransformer):
        def visit_Name(self, node):  # type: ignore
            return ast.copy_location(ast.Name(id="_", ctx=node.ctx), node)

        def visit_arg(self, node):  # type: ignore
            node.arg = "_"
            node.annotation = None
            return node

        def visit_Attribute(self, node):  # type: ignore
            self.generic_visit(node)
            node.attr = "_"
            return node

        def visit_keyword(self, node):  # type: ignore
            self.generic_visit(node)
            node.arg = "_" if node.arg is not None else None
            return node

        def visit_FunctionDef(self, node):  # type: ignore
            self.generic_visit(node)
            node.name = "_"
            node.returns = None
            node.decorator_list = []
            return node

        def visit_AnnAssign(self, node):  # type: ignore
            self.generic_visit(node)
            node.annotation = ast.Name(id="_", ctx=ast.Load())
            return node

        def visit_Global(self, node):  # type: ignore
            node.names = ["_"] * len(node.names)
            return node

        def visit_Nonlocal(self, node):  # type: ignore
            node.names = ["_"] * len(node.names)
            return node

        def visit_ExceptHandler(self, node):  # type: ignore
            self.generic_visit(node)
            node.name = "_" if node.name else None
            return node

        def visit_alias(self, node):  # type: ignore
            node.name, node.asname = "_", None
            return node

        def visit_ImportFrom(self, node):  # type: ignore
            self.generic_visit(node)
            node.module = "_"
            return node

        def visit_Constant(self, node):  # type: ignore
            # text of messages may name the function: only the kind of constant counts
            return ast.copy_location(ast.Constant(value=type(node.value).__name__), node)

        def visit_JoinedStr(self, node):  # type: ignore
            return ast.copy_location(ast.Constant(value="fstr"), node)

    t = _Blank().visit(copy.deepcopy(fd))
    body = t.body if isinstance(t, (ast.FunctionDef, ast.AsyncFunctionDef)) else [t]
    if body and isinstance(body[0], ast.Expr) and isinstance(body[0].value, ast.Constant):
        body = body[1:]  # docstring
    txt = "|".join(ast.dump(x, annotate_fields=False, include_attributes=False) for x in body)
    return hashlib.sha1(txt.encode()).hexdigest()[:16]


def _deco_kind(fd: FuncDef) -> Optional[str]:
    """'plain' / 'classmethod' / 'staticmethod'; None for any other decorator"""
    if not fd.decorator_list:
        return "plain"
    if len(fd.decorator_list) == 1 and isinstance(fd.decorator_list[0], ast.Name) and fd.decorator_list[0].id in ("classmethod", "staticmethod"):
        return fd.decorator_list[0].id
    return None


def collect_generators(tree: ast.Module, known: Set[str]) -> List[str]:
    """A private module-level generator that the reference tree does not have and that is only ever consumed whole - `OrderedDict(_pairs(..))`, `list(..)`, `dict(..)`,
    `tuple(..)` as the value of a statement - is the function that appends to a list and returns it: `yield E` becomes `<items>.append(E)`, and the consumer is fed the
    list through a local of its own, so that the call stands at statement level (and can be expanded like any other new helper)."""
    log: List[str] = []
    COLLECT = {"OrderedDict", "dict", "list", "tuple", "sorted", "set", "frozenset"}
    gens: Dict[str, FuncDef] = {}
    for st in tree.body:
        if isinstance(st, ast.FunctionDef) and st.name.startswith("_") and st.name not in known and not st.decorator_list:
            ys = [n for n in _own_walk(st) if isinstance(n, (ast.Yield, ast.YieldFrom, ast.Await))]
            if ys and all(isinstance(n, ast.Yield) and n.value is not None for n in ys):
                gens[st.name] = st
    if not gens:
        return log
    parents: Dict[int, ast.AST] = {}
    for p in ast.walk(tree):
        for c in ast.iter_child_nodes(p):
            parents[id(c)] = p
    for name, fd in gens.items():
        refs = [n for n in ast.walk(tree) if isinstance(n, ast.Name) and n.id == name and isinstance(n.ctx, ast.Load)]
        sites = []
        ok = bool(refs)
        for r in refs:
            call = parents.get(id(r))
            outer = parents.get(id(call)) if isinstance(call, ast.Call) and call.func is r else None
            stmt = parents.get(id(outer)) if isinstance(outer, ast.Call) else None
            if not (isinstance(outer, ast.Call) and len(outer.args) == 1 and outer.args[0] is call and not outer.keywords and isinstance(outer.func, (ast.Name, ast.Attribute))
                    and (outer.func.id if isinstance(outer.func, ast.Name) else outer.func.attr) in COLLECT
                    and isinstance(stmt, (ast.Assign, ast.AnnAssign, ast.Return)) and stmt.value is outer):
                ok = False
                break
            sites.append((stmt, outer, call))
        # every yield is a statement of its own
        ys = [n for n in _own_walk(fd) if isinstance(n, ast.Yield)]
        if not ok or not all(isinstance(parents.get(id(y)), ast.Expr) for y in ys):
            continue
        if any(isinstance(n, ast.Return) and n.value is not None for n in _own_walk(fd)):
            continue
        acc = f"items__{name.strip('_')}"

        class Y(ast.NodeTransformer):
            def visit_Expr(self, node: ast.Expr) -> ast.AST:
                if isinstance(node.value, ast.Yield):
                    c = ast.Expr(value=ast.Call(func=ast.Attribute(value=ast.Name(id=acc, ctx=ast.Load()), attr="append", ctx=ast.Load()), args=[node.value.value], keywords=[]))
                    return ast.fix_missing_locations(ast.copy_location(c, node))
                return node

            def visit_Return(self, node: ast.Return) -> ast.AST:
                return ast.fix_missing_locations(ast.copy_location(ast.Return(value=ast.Name(id=acc, ctx=ast.Load())), node))

            def visit_FunctionDef(self, node):  # type: ignore
                if node is fd:
                    self.generic_visit(node)
                return node

            def visit_Lambda(self, node):  # type: ignore
                return node
        Y().visit(fd)
        init = ast.Assign(targets=[ast.Name(id=acc, ctx=ast.Store())], value=ast.List(elts=[], ctx=ast.Load()), type_comment=None)
        ast.copy_location(init, fd.body[0])
        k0 = 1 if (isinstance(fd.body[0], ast.Expr) and isinstance(fd.body[0].value, ast.Constant) and isinstance(fd.body[0].value.value, str)) else 0
        fd.body.insert(k0, init)
        tail = ast.Return(value=ast.Name(id=acc, ctx=ast.Load()))
        ast.copy_location(tail, fd.body[-1])
        fd.body.append(tail)
        fd.returns = None
        ast.fix_missing_locations(fd)
        # the consumer reads a local that the call fills
        for k, (stmt, outer, call) in enumerate(sites):
            tmp = f"collected__{name.strip('_')}{k if k else ''}"
            pre = ast.Assign(targets=[ast.Name(id=tmp, ctx=ast.Store())], value=call, type_comment=None)
            ast.copy_location(pre, stmt)
            outer.args[0] = ast.copy_location(ast.Name(id=tmp, ctx=ast.Load()), call)
            ast.fix_missing_locations(pre)
            holder = parents.get(id(stmt))
            for fld in ("body", "orelse", "finalbody"):
                b = getattr(holder, fld, None)
                if isinstance(b, list) and any(x is stmt for x in b):
                    i = [j for j, x in enumerate(b) if x is stmt][0]
                    b.insert(i, pre)
        log.append(f"generator {name} read as the function that returns the list of what it yields ({len(sites)} consumer(s))")
    return log


def normalise_new(tree: ast.Module, known: Set[str], protected: Set[str], known_shapes: Set[str] = frozenset()) -> List[str]:  # type: ignore
    """Third phase, for every module: helpers that the reference tree does not have.

    `known` holds the private functions, methods and closures of the pinned tree (ddsverif/known_names.py): the rules were
    written against them and look several of them up by name.  A private module-level function or private method that is NOT
    in that table was introduced by a later change ('extract function / extract method'); it is expanded at its call sites
    when every reference to it is a direct statement-level call (`x = _h(..)`, `return self._h(..)`, `cls._h(..)`) from a
    function of the same module / a method of the same class, and it is undecorated (classmethod / staticmethod aside), not a
    generator, not directly recursive.  Nothing of the reference tree is ever touched by this phase, so the analysis of the
    pinned tree does not depend on it."""
    log: List[str] = []
    for _round in range(8):
        scopes: List[Tuple[FuncDef, Optional[ast.ClassDef]]] = []
        for st in tree.body:
            if isinstance(st, ast.FunctionDef):
                scopes.append((st, None))
            elif isinstance(st, ast.ClassDef):
                for m in st.body:
                    if isinstance(m, ast.FunctionDef):
                        scopes.append((m, st))
        helpers: Dict[str, Tuple[FuncDef, Optional[ast.ClassDef]]] = {}
        for fd, cls in scopes:
            q = fd.name if cls is None else f"{cls.name}.{fd.name}"
            if not fd.name.startswith("_") or (fd.name.startswith("__") and fd.name.endswith("__")):
                continue
            if q in known or fd.name in protected or _deco_kind(fd) is None:
                continue
            if known_shapes and fingerprint(fd) in known_shapes:
                continue  # a function of the pinned tree under a new name (or in a new place): not a new helper
            if cls is None and fd.decorator_list:
                continue
            if any(isinstance(n, (ast.Yield, ast.YieldFrom, ast.Await)) for n in _own_walk(fd)):
                continue
            if any(isinstance(n, ast.Attribute) and isinstance(n.value, ast.Name) and n.value.id == "hashlib" for n in _own_walk(fd)):
                continue  # a digest primitive: the rules know it by its role (roles.is_digest_call), under any name
            helpers[q] = (fd, cls)
        if not helpers:
            break
        sites: Dict[str, List[Tuple[FuncDef, ast.stmt, ast.Call]]] = {q: [] for q in helpers}
        seen: Set[int] = set()
        # a closure calls the helpers of its module like the function that holds it does
        callers: List[Tuple[FuncDef, Optional[ast.ClassDef]]] = list(scopes)
        for fd0, cls0 in scopes:
            work = [fd0]
            while work:
                cur = work.pop()
                for sub in _own_walk(cur):
                    if isinstance(sub, ast.FunctionDef):
                        callers.append((sub, None))
                        work.append(sub)
        for caller, ccls in callers:
            for n in _own_walk(caller, into_lambdas=False):
                if not isinstance(n, ast.stmt):
                    continue
                c = _stmt_call(n)
                if c is None:
                    continue
                if isinstance(c.func, ast.Name) and c.func.id in helpers and helpers[c.func.id][1] is None:
                    sites[c.func.id].append((caller, n, c))
                    seen.add(id(c.func))
                elif isinstance(c.func, ast.Attribute) and isinstance(c.func.value, ast.Name) and c.func.value.id in ("self", "cls") and ccls is not None:
                    q = f"{ccls.name}.{c.func.attr}"
                    if q in helpers and _params(caller)[:1] == [c.func.value.id]:
                        sites[q].append((caller, n, c))
                        seen.add(id(c.func))
        other: Dict[str, int] = {q: 0 for q in helpers}
        for n in ast.walk(tree):
            if isinstance(n, ast.Name) and isinstance(n.ctx, ast.Load) and id(n) not in seen and n.id in helpers:
                other[n.id] += 1
            elif isinstance(n, ast.Attribute) and id(n) not in seen:
                for q, (fd, cls) in helpers.items():
                    if cls is not None and fd.name == n.attr:
                        other[q] += 1
        # a method name defined by two classes of the module may be an override: left alone
        names: Dict[str, int] = {}
        for fd, cls in scopes:
            if cls is not None:
                names[fd.name] = names.get(fd.name, 0) + 1
        cand = [q for q, (fd, cls) in helpers.items() if sites[q] and not other[q] and not any(caller is fd for caller, _s, _c in sites[q])
                and (cls is None or names.get(fd.name, 0) == 1)]
        leaves = [q for q in cand if not any(caller is helpers[q][0] and g in cand for g in cand for caller, _s, _c in sites[g])]
        if not leaves:
            break
        done_any = False
        for q in leaves:
            fd, cls = helpers[q]
            kind = _deco_kind(fd)
            blocks = []
            for serial, (caller, st, c) in enumerate(sites[q]):
                call = c
                if cls is not None and kind != "staticmethod":
                    recv: ast.AST = copy.deepcopy(c.func.value)  # type: ignore
                    if kind == "classmethod" and recv.id == "self":  # type: ignore
                        recv = ast.Call(func=ast.Name(id="type", ctx=ast.Load()), args=[recv], keywords=[])
                    elif kind == "plain" and recv.id == "cls":  # type: ignore
                        blocks = []
                        break
                    call = ast.Call(func=c.func, args=[recv] + list(c.args), keywords=list(c.keywords))
                    ast.copy_location(call, c)
                    ast.fix_missing_locations(call)
                fun_names = ({f.name for f, k in scopes if k is None} | {n.name for n in ast.walk(caller) if isinstance(n, ast.FunctionDef) and n is not caller}) - _assigned(caller)
                blk = _expand(caller, st, call, fd, serial, fun_names)
                if blk is None:
                    blocks = []
                    break
                blocks.append((caller, st, blk))
            if not blocks:
                log.append(f"{q}: call shape not understood, left as a callee")
                protected = protected | {fd.name}
                continue
            for caller, st, blk in blocks:
                if not _replace_stmt(caller, st, blk):
                    raise RuntimeError(f"inline: statement of {caller.name} not found")
            (tree.body if cls is None else cls.body).remove(fd)
            done_any = True
            log.append(f"new helper {q} inlined into {', '.join(sorted({c.name for c, _s, _b in blocks}))}")
        if not done_any:
            break
    return log


# ------------------------------------------------------------------------------------------------------------------
# Named canonical-path constants
#
# The inspectors recognise the dds entry points by comparing a resolved path with `CanonicalPathUtils.from_list([..])`.
# A refactoring may name these values once at module level (`_dds_load_path = CanonicalPathUtils.from_list(["dds",
# "load"])`).  Such a name is expanded back at each use - the rules then see the literal path again - provided the
# name is bound exactly once in the module, at module level, to a from_list call on string literals (or a tuple /
# list of such calls) and is never assigned elsewhere.


def literal_constants(sources: Dict[str, Tuple[str, str, bool]], known_vars: Dict[str, List[str]]) -> Dict[str, Dict[str, ast.Constant]]:
    """module -> {name: Constant} for the module-level names bound exactly once to a str / bytes literal that the pinned tree does not have"""
    out: Dict[str, Dict[str, ast.Constant]] = {}
    for name, (_rel, src, _pkg) in sources.items():
        try:
            t = ast.parse(src)
        except SyntaxError:
            continue
        stores: Dict[str, int] = {}
        for n in ast.walk(t):
            if isinstance(n, ast.Name) and isinstance(n.ctx, (ast.Store, ast.Del)):
                stores[n.id] = stores.get(n.id, 0) + 1
            elif isinstance(n, ast.Global):
                for g in n.names:
                    stores[g] = stores.get(g, 0) + 2
        for st in t.body:
            tgt, val = None, None
            if isinstance(st, ast.Assign) and len(st.targets) == 1 and isinstance(st.targets[0], ast.Name):
                tgt, val = st.targets[0].id, st.value
            elif isinstance(st, ast.AnnAssign) and isinstance(st.target, ast.Name) and st.value is not None:
                tgt, val = st.target.id, st.value
            if tgt is not None and tgt not in known_vars.get(name, []) and stores.get(tgt) == 1 and isinstance(val, ast.Constant) and isinstance(val.value, (str, bytes)):
                out.setdefault(name, {})[tgt] = val
    return out


def expand_literal_constants(tree: ast.Module, own: Dict[str, ast.Constant], imported: Dict[str, ast.Constant]) -> List[str]:
    """a name bound once at module level to a string / bytes literal (here, or imported by name from a module of the package) is replaced by
    the literal at each use: `open(loc, _WRITE_BINARY)`, `os.path.join(root, _BLOBS_DIR, key + _META_SUFFIX)` read like before the constant existed"""
    binds: Dict[str, int] = {}
    for n in ast.walk(tree):
        if isinstance(n, ast.Name) and isinstance(n.ctx, (ast.Store, ast.Del)):
            binds[n.id] = binds.get(n.id, 0) + 1
        elif isinstance(n, ast.arg):
            binds[n.arg] = binds.get(n.arg, 0) + 1
        elif isinstance(n, (ast.FunctionDef, ast.AsyncFunctionDef, ast.ClassDef)):
            binds[n.name] = binds.get(n.name, 0) + 1
    consts = {k: v for k, v in own.items() if binds.get(k, 0) == 1}
    consts.update({k: v for k, v in imported.items() if binds.get(k, 0) == 0})
    if not consts:
        return []
    used: Dict[str, int] = {}

    class T(ast.NodeTransformer):
        def visit_Name(self, node: ast.Name) -> ast.AST:
            if isinstance(node.ctx, ast.Load) and node.id in consts:
                used[node.id] = used.get(node.id, 0) + 1
                return ast.copy_location(ast.Constant(value=consts[node.id].value), node)
            return node

    T().visit(tree)
    return [f"literal constant {k} expanded at {v} use(s)" for k, v in sorted(used.items())]


def _enum_value(x: ast.AST, enums: Dict[str, str]) -> Optional[str]:
    """`Functions.Load.value` -> 'load' (a member of an Enum of the package with a string value)"""
    if isinstance(x, ast.Attribute) and x.attr == "value" and isinstance(x.value, ast.Attribute) and isinstance(x.value.value, ast.Name):
        return enums.get(f"{x.value.value.id}.{x.value.attr}")
    return None


def _is_path_const(e: ast.AST, enums: Dict[str, str] = {}) -> bool:  # noqa: B006 (read only)
    if isinstance(e, ast.Call) and isinstance(e.func, ast.Attribute) and e.func.attr == "from_list" and len(e.args) == 1 and not e.keywords:
        l = e.args[0]
        return isinstance(l, ast.List) and bool(l.elts) and all(
            (isinstance(x, ast.Constant) and isinstance(x.value, str)) or _enum_value(x, enums) is not None for x in l.elts)
    if isinstance(e, (ast.Tuple, ast.List)) and e.elts:
        return all(_is_path_const(x, enums) for x in e.elts)
    return False


def _literal_path(e: ast.AST, enums: Dict[str, str]) -> ast.AST:
    """the constant with enum member values written as the strings they are"""
    e = copy.deepcopy(e)
    for l in ast.walk(e):
        if isinstance(l, ast.List):
            l.elts = [ast.copy_location(ast.Constant(value=_enum_value(x, enums)), x) if _enum_value(x, enums) is not None else x for x in l.elts]
    return e


def package_constants(sources: Dict[str, Tuple[str, str, bool]]) -> Tuple[Dict[str, str], Dict[str, Dict[str, ast.AST]]]:
    """(string values of the Enum members of the package, the canonical-path constants bound once at module level in each module)"""
    enums: Dict[str, str] = {}
    trees: Dict[str, ast.Module] = {}
    for name, (_rel, src, _pkg) in sources.items():
        try:
            trees[name] = ast.parse(src)
        except SyntaxError:
            continue
        for c in trees[name].body:
            if isinstance(c, ast.ClassDef) and any(unparse_name(b).endswith("Enum") for b in c.bases):
                for st in c.body:
                    if isinstance(st, ast.Assign) and len(st.targets) == 1 and isinstance(st.targets[0], ast.Name) and isinstance(st.value, ast.Constant) and isinstance(st.value.value, str):
                        enums[f"{c.name}.{st.targets[0].id}"] = st.value.value
    consts: Dict[str, Dict[str, ast.AST]] = {}
    for name, t in trees.items():
        stores: Dict[str, int] = {}
        for n in ast.walk(t):
            if isinstance(n, ast.Name) and isinstance(n.ctx, (ast.Store, ast.Del)):
                stores[n.id] = stores.get(n.id, 0) + 1
        for st in t.body:
            if isinstance(st, ast.Assign) and len(st.targets) == 1 and isinstance(st.targets[0], ast.Name) and _is_path_const(st.value, enums) and stores.get(st.targets[0].id) == 1:
                consts.setdefault(name, {})[st.targets[0].id] = _literal_path(st.value, enums)
    return enums, consts


def unparse_name(e: ast.AST) -> str:
    try:
        return ast.unparse(e)
    except Exception:
        return ""


def expand_path_constants(tree: ast.Module, enums: Dict[str, str] = {}, imported: Dict[str, ast.AST] = {}) -> List[str]:  # noqa: B006
    binds: Dict[str, List[ast.AST]] = {}
    for n in ast.walk(tree):
        if isinstance(n, ast.Name) and isinstance(n.ctx, (ast.Store, ast.Del)):
            binds.setdefault(n.id, []).append(n)
        elif isinstance(n, (ast.FunctionDef, ast.AsyncFunctionDef, ast.ClassDef)):
            binds.setdefault(n.name, []).append(n)
        elif isinstance(n, ast.arg):
            binds.setdefault(n.arg, []).append(n)
        elif isinstance(n, (ast.Import, ast.ImportFrom)):
            for a in n.names:
                binds.setdefault(a.asname or a.name.split(".")[0], []).append(n)
    consts: Dict[str, ast.AST] = {}
    for st in tree.body:
        tgt = None
        if isinstance(st, ast.Assign) and len(st.targets) == 1 and isinstance(st.targets[0], ast.Name):
            tgt, val = st.targets[0], st.value
        elif isinstance(st, ast.AnnAssign) and isinstance(st.target, ast.Name) and st.value is not None:
            tgt, val = st.target, st.value
        if tgt is not None and _is_path_const(val, enums) and len(binds.get(tgt.id, [])) == 1:
            consts[tgt.id] = _literal_path(val, enums)
    # constants of another module of the package imported by name (`from .introspect import _dds_keep_path`), never re-bound here
    for nm, val in imported.items():
        if len(binds.get(nm, [])) == 1 and isinstance(binds[nm][0], ast.ImportFrom):
            consts[nm] = val
    if not consts:
        return []
    used: Dict[str, int] = {}

    class T(ast.NodeTransformer):
        def visit_Name(self, node: ast.Name) -> ast.AST:
            if isinstance(node.ctx, ast.Load) and node.id in consts:
                used[node.id] = used.get(node.id, 0) + 1
                return copy.deepcopy(consts[node.id])
            return node

    T().visit(tree)
    return [f"path constant {k} expanded at {v} use(s)" for k, v in sorted(used.items())]


# ---- small algebra after expansion ------------------------------------------------------------------------------------------------------

def _pure_test(e: ast.AST) -> bool:
    """evaluating the test twice is evaluating it once: names, constants, attributes of names, is / == / in comparisons, not / and / or"""
    for n in ast.walk(e):
        if not isinstance(n, (ast.Name, ast.Constant, ast.Attribute, ast.Compare, ast.BoolOp, ast.UnaryOp, ast.Load, ast.cmpop, ast.boolop, ast.unaryop)):
            return False
    return True


def _is_boolean(e: ast.AST) -> bool:
    if isinstance(e, ast.Compare):
        return True
    if isinstance(e, ast.UnaryOp) and isinstance(e.op, ast.Not):
        return True
    if isinstance(e, ast.BoolOp):
        return all(_is_boolean(v) for v in e.values)
    return isinstance(e, ast.Constant) and isinstance(e.value, bool)


class _Algebra(ast.NodeTransformer):
    def __init__(self) -> None:
        self.log: List[str] = []

    def visit_IfExp(self, node: ast.IfExp) -> ast.AST:
        self.generic_visit(node)
        b, o = node.body, node.orelse
        if isinstance(b, ast.Constant) and isinstance(o, ast.Constant) and isinstance(b.value, bool) and isinstance(o.value, bool) and b.value != o.value and _is_boolean(node.test):
            self.log.append("`True if c else False` read as c")
            if b.value:
                return node.test
            return ast.copy_location(ast.UnaryOp(op=ast.Not(), operand=node.test), node)
        return node


def _split_tuple_choice(body: List[ast.stmt], log: List[str]) -> None:
    """`(a, b) = (x1, y1) if c else (x2, y2)` with a test that can be evaluated twice is `a = x1 if c else x2; b = y1 if c else y2`
    (no target is read by the test or by an arm)"""
    i = 0
    while i < len(body):
        st = body[i]
        for fld in ("body", "orelse", "finalbody"):
            sub = getattr(st, fld, None)
            if isinstance(sub, list) and sub and isinstance(sub[0], ast.stmt):
                _split_tuple_choice(sub, log)
        for h in getattr(st, "handlers", []) or []:
            _split_tuple_choice(h.body, log)
        if isinstance(st, ast.Assign) and len(st.targets) == 1 and isinstance(st.targets[0], (ast.Tuple, ast.List)) and all(isinstance(t, ast.Name) for t in st.targets[0].elts):
            v = st.value
            tg = st.targets[0].elts
            names = {t.id for t in tg}  # type: ignore
            new: Optional[List[ast.stmt]] = None
            if isinstance(v, ast.IfExp) and isinstance(v.body, ast.Tuple) and isinstance(v.orelse, ast.Tuple) and len(v.body.elts) == len(tg) == len(v.orelse.elts) \
                    and _pure_test(v.test) and not any(isinstance(n, ast.Name) and n.id in names for n in ast.walk(v)) and not any(isinstance(x, ast.Starred) for x in v.body.elts + v.orelse.elts):
                new = []
                for t, x, y in zip(tg, v.body.elts, v.orelse.elts):
                    a = ast.Assign(targets=[t], value=ast.IfExp(test=copy.deepcopy(v.test), body=x, orelse=y), type_comment=None)
                    new.append(ast.fix_missing_locations(ast.copy_location(a, st)))
            elif isinstance(v, ast.Tuple) and len(v.elts) == len(tg) and not any(isinstance(x, ast.Starred) for x in v.elts) \
                    and not any(isinstance(n, ast.Name) and n.id in names for n in ast.walk(v)):
                new = []
                for t, x in zip(tg, v.elts):
                    a = ast.Assign(targets=[t], value=x, type_comment=None)
                    new.append(ast.fix_missing_locations(ast.copy_location(a, st)))
            if new is not None:
                body[i:i + 1] = new
                log.append("tuple assignment of a choice of tuples split per component")
                i += len(new)
                continue
        i += 1


def _attr_aliases(fd: FuncDef, frozen_attrs: Set[str], log: List[str]) -> None:
    """`known = self._paths` (the only binding of `known` in the function, `self._paths` bound by the constructor only): `known` is `self._paths`"""
    stores: Dict[str, List[ast.AST]] = {}
    for n in _own_walk(fd):
        if isinstance(n, ast.Name) and isinstance(n.ctx, (ast.Store, ast.Del)):
            stores.setdefault(n.id, []).append(n)
    params = set(_params(fd))
    nested_uses = {n.id for sub in _own_walk(fd) if isinstance(sub, (ast.FunctionDef, ast.AsyncFunctionDef, ast.ClassDef, ast.Lambda)) for n in ast.walk(sub) if isinstance(n, ast.Name)}
    cands: Dict[str, ast.Assign] = {}
    for n in _own_walk(fd):
        if isinstance(n, ast.Assign) and len(n.targets) == 1 and isinstance(n.targets[0], ast.Name) and isinstance(n.value, ast.Attribute) \
                and isinstance(n.value.value, ast.Name) and n.value.value.id == "self" and n.value.attr in frozen_attrs:
            x = n.targets[0].id
            if len(stores.get(x, [])) == 1 and x not in params and x not in nested_uses and x != "self":
                cands[x] = n
    if not cands:
        return

    # the assignment must come first where the name is used: only when it sits at the top level of the function body (or of an expanded block there)
    def top_level(stmts: List[ast.stmt]):
        for s in stmts:
            yield s
            if isinstance(s, InlineBlock):
                yield from top_level(s.body)
    tops = {id(s) for s in top_level(fd.body)}
    cands = {x: a for x, a in cands.items() if id(a) in tops}
    if not cands:
        return

    class Sub(ast.NodeTransformer):
        def visit_Name(self, node: ast.Name) -> ast.AST:
            if isinstance(node.ctx, ast.Load) and node.id in cands:
                return ast.copy_location(copy.deepcopy(cands[node.id].value), node)
            return node

        def visit_FunctionDef(self, node):  # type: ignore
            return node

        def visit_Lambda(self, node):  # type: ignore
            return node

        def visit_ClassDef(self, node):  # type: ignore
            return node

    def drop(stmts: List[ast.stmt]) -> None:
        stmts[:] = [s for s in stmts if not any(s is a for a in cands.values())]
        if not stmts:
            stmts.append(ast.Pass())
        for s in stmts:
            if isinstance(s, InlineBlock):
                drop(s.body)
    sub = Sub()
    for s in fd.body:
        sub.visit(s)
    drop(fd.body)
    ast.fix_missing_locations(fd)
    log.append(f"{fd.name}: " + ", ".join(f"`{x}` is `self.{a.value.attr}`" for x, a in sorted(cands.items())))  # type: ignore


def _bind_aliases(fd: FuncDef, log: List[str]) -> None:
    """`call_kwargs = kwargs` written by the expansion of a helper (parameter := argument) where neither name is assigned again in the function: the parameter of the
    helper IS the caller's variable - the expanded body reads it under the caller's name."""
    stores: Dict[str, int] = {}
    for n in ast.walk(fd):
        if isinstance(n, ast.Name) and isinstance(n.ctx, (ast.Store, ast.Del)):
            stores[n.id] = stores.get(n.id, 0) + 1
        elif isinstance(n, ast.arg):
            stores[n.arg] = stores.get(n.arg, 0) + 1
        elif isinstance(n, (ast.Global, ast.Nonlocal)):
            for nm in n.names:
                stores[nm] = stores.get(nm, 0) + 2
    mapping: Dict[str, ast.AST] = {}
    drop: List[ast.AST] = []
    for n in ast.walk(fd):
        if isinstance(n, ast.Assign) and getattr(n, "_inline_bind", False) and isinstance(n.value, ast.Name) and isinstance(n.targets[0], ast.Name):
            x, y = n.targets[0].id, n.value.id
            if stores.get(x, 0) == 1 and stores.get(y, 0) <= 1 and x != y and y not in mapping and x not in mapping:
                mapping[x] = ast.Name(id=y, ctx=ast.Load())
                drop.append(n)
    if not mapping:
        return
    # chains: a := b, b := c
    for k_ in list(mapping):
        v = mapping[k_]
        hops = 0
        while isinstance(v, ast.Name) and v.id in mapping and hops < 5:
            v = mapping[v.id]
            hops += 1
        mapping[k_] = v
    sub = _Subst(mapping)

    class Deep(ast.NodeTransformer):
        def visit_Name(self, node: ast.Name) -> ast.AST:
            return sub.visit_Name(node)
    Deep().visit(fd)

    def prune(stmts: List[ast.stmt]) -> None:
        stmts[:] = [s_ for s_ in stmts if not any(s_ is d for d in drop)] or [ast.Pass()]
        for s_ in stmts:
            for fld in ("body", "orelse", "finalbody"):
                b = getattr(s_, fld, None)
                if isinstance(b, list) and b and isinstance(b[0], ast.stmt):
                    prune(b)
            for h in getattr(s_, "handlers", []) or []:
                prune(h.body)
    prune(fd.body)
    ast.fix_missing_locations(fd)
    log.append(f"{fd.name}: parameters of expanded helpers read under the caller's names ({', '.join(sorted(mapping))})")


def simplify(tree: ast.Module) -> List[str]:
    """Behaviour-preserving rewrites applied after the expansions, so that the rules see one form:
    tuple assignments of tuples (and of a choice between two tuples) are split per component, `True if c else False` is c,
    and a local that is nothing but another name for an attribute of self that only the constructor binds is that attribute."""
    log: List[str] = []
    for cls in [st for st in tree.body if isinstance(st, ast.ClassDef)] + [tree]:
        frozen: Set[str] = set()
        if isinstance(cls, ast.ClassDef):
            bound: Dict[str, Set[str]] = {}
            for m in [x for x in cls.body if isinstance(x, ast.FunctionDef)]:
                for n in ast.walk(m):
                    if isinstance(n, ast.Attribute) and isinstance(n.ctx, (ast.Store, ast.Del)) and isinstance(n.value, ast.Name) and n.value.id == "self":
                        bound.setdefault(n.attr, set()).add(m.name)
            frozen = {a for a, ms in bound.items() if ms <= {"__init__"}}
        for fd in [x for x in cls.body if isinstance(x, ast.FunctionDef)]:
            before = len(log)
            _split_tuple_choice(fd.body, log)
            _bind_aliases(fd, log)
            alg = _Algebra()
            for s in fd.body:
                alg.visit(s)
            log += alg.log
            if frozen and fd.name != "__init__":
                _attr_aliases(fd, frozen, log)
            if len(log) > before:
                ast.fix_missing_locations(fd)
    return sorted(set(log))


# ---- dispatch tables of (predicate, handler) pairs ------------------------------------------------------------------------------------

class _Subst(ast.NodeTransformer):
    """loads of the given names replaced by (copies of) expressions; nested scopes that rebind a name are left alone"""

    def __init__(self, mapping: Dict[str, ast.AST]):
        self.mapping = mapping

    def visit_Name(self, node: ast.Name) -> ast.AST:
        if isinstance(node.ctx, ast.Load) and node.id in self.mapping:
            return ast.copy_location(copy.deepcopy(self.mapping[node.id]), node)
        return node

    def visit_Lambda(self, node: ast.Lambda) -> ast.AST:
        bound = {a.arg for a in node.args.posonlyargs + node.args.args + node.args.kwonlyargs} | ({node.args.vararg.arg} if node.args.vararg else set()) | ({node.args.kwarg.arg} if node.args.kwarg else set())
        inner = {k: v for k, v in self.mapping.items() if k not in bound}
        if inner:
            node.body = _Subst(inner).visit(node.body)
        return node

    def visit_FunctionDef(self, node):  # type: ignore
        return node

    def visit_ClassDef(self, node):  # type: ignore
        return node


def _simple_arg(e: ast.AST) -> bool:
    """an argument that can be written twice: a name, a constant, an attribute chain of a name, a display of such"""
    if isinstance(e, (ast.Name, ast.Constant)):
        return True
    if isinstance(e, ast.Attribute):
        return _simple_arg(e.value)
    if isinstance(e, (ast.Tuple, ast.List)):
        return all(_simple_arg(x) for x in e.elts)
    return False


def _apply_lambda(lam: ast.Lambda, args: List[ast.AST]) -> Optional[ast.AST]:
    a = lam.args
    if a.kwonlyargs or a.kwarg or a.defaults or a.posonlyargs or any(isinstance(x, ast.Starred) for x in args) or not all(_simple_arg(x) for x in args):
        return None
    names = [x.arg for x in a.args]
    if a.vararg is None and len(names) != len(args):
        return None
    if a.vararg is not None and len(args) < len(names):
        return None
    mapping: Dict[str, ast.AST] = dict(zip(names, args))
    if a.vararg is not None:
        mapping[a.vararg.arg] = ast.Tuple(elts=list(args[len(names):]), ctx=ast.Load())
    return _Subst(mapping).visit(copy.deepcopy(lam.body))


class _Beta(ast.NodeTransformer):
    """`(lambda x: E)(a)` is E[x := a]; `factory(a..)(b..)` where `def factory(p..): return lambda q..: E` is E[p.. := a.., q.. := b..]"""

    def __init__(self, factories: Dict[str, FuncDef], predicates: bool = False):
        self.factories = factories
        self.predicates = predicates
        self.truth_positions: Set[int] = set()  # calls whose value is only tested for truth (the test itself, operands of and / or / not in it)
        self.count = 0

    def mark_truth(self, e: ast.AST) -> None:
        if isinstance(e, ast.BoolOp):
            for v in e.values:
                self.mark_truth(v)
        elif isinstance(e, ast.UnaryOp) and isinstance(e.op, ast.Not):
            self.mark_truth(e.operand)
        elif isinstance(e, ast.Call):
            self.truth_positions.add(id(e))

    def visit_Call(self, node: ast.Call) -> ast.AST:
        self.generic_visit(node)
        if node.keywords:
            return node
        f = node.func
        lam: Optional[ast.AST] = None
        if isinstance(f, ast.Lambda):
            lam = f
        elif isinstance(f, ast.Call) and isinstance(f.func, ast.Name) and f.func.id in self.factories and not f.keywords:
            fd = self.factories[f.func.id]
            body = [s for s in fd.body if not (isinstance(s, ast.Expr) and isinstance(s.value, ast.Constant))]
            if len(body) == 1 and isinstance(body[0], ast.Return) and isinstance(body[0].value, ast.Lambda) and not fd.decorator_list:
                outer = ast.Lambda(args=fd.args, body=body[0].value)
                lam = _apply_lambda(outer, list(f.args))
        if lam is None and self.predicates and isinstance(f, ast.Name) and f.id in self.factories:
            # a one-line predicate (`def is_x(v): return <test of v>`) applied to a simple argument
            fd = self.factories[f.id]
            body = [s for s in fd.body if not (isinstance(s, ast.Expr) and isinstance(s.value, ast.Constant))]
            if len(body) == 1 and isinstance(body[0], ast.Return) and body[0].value is not None and (_is_boolean(body[0].value) or id(node) in self.truth_positions) and not fd.decorator_list \
                    and not any(isinstance(x, (ast.Lambda, ast.Yield, ast.Await, ast.NamedExpr)) for x in ast.walk(body[0].value)):
                lam = ast.Lambda(args=fd.args, body=body[0].value)
        if isinstance(lam, ast.Lambda):
            r = _apply_lambda(lam, list(node.args))
            if r is not None:
                self.count += 1
                return ast.copy_location(r, node)
        return node


def unroll_dispatch_tables(tree: ast.Module) -> List[str]:
    """`for (applies, handle) in RULES: if applies(x): <body>; break` `else: <no rule>` over a literal list RULES of pairs that nothing else uses is the
    chain `if P1(x): <body with H1> elif P2(x): <body with H2> ... else: <no rule>`; predicates written as lambdas (or made by a one-line lambda factory)
    are applied in place.  The chain is what the rules are written against."""
    log: List[str] = []
    # every binding and every use of a name, over the whole module
    uses: Dict[str, List[ast.Name]] = {}
    for n in ast.walk(tree):
        if isinstance(n, ast.Name):
            uses.setdefault(n.id, []).append(n)
    parents: Dict[int, ast.AST] = {}
    for p in ast.walk(tree):
        for c in ast.iter_child_nodes(p):
            parents[id(c)] = p

    def holders(scope: ast.AST):
        for fld in ("body", "orelse", "finalbody"):
            b = getattr(scope, fld, None)
            if isinstance(b, list) and b and isinstance(b[0], ast.stmt):
                yield b
        for h in getattr(scope, "handlers", []) or []:
            yield h.body

    def visit(scope: ast.AST, factories: Dict[str, FuncDef], caller: Optional[FuncDef] = None) -> None:
        if isinstance(scope, (ast.FunctionDef, ast.Module, ast.ClassDef)):
            factories = dict(factories)
            for s in scope.body:
                if isinstance(s, ast.FunctionDef):
                    factories[s.name] = s
        if isinstance(scope, ast.FunctionDef):
            caller = scope
        for body in holders(scope):
            i = 0
            while i < len(body):
                st = body[i]
                new = try_unroll(st, factories, caller) if isinstance(st, ast.For) else None
                if new is not None:
                    body[i] = new
                else:
                    visit(st, factories, caller)
                i += 1

    def try_unroll_plain(loop: ast.For, factories: Dict[str, FuncDef], caller: Optional[FuncDef]) -> Optional[ast.stmt]:
        """`for look_up in LOOKUPS: key = look_up(p); if key is not None: break` `else: <nobody answered>` over a literal tuple of functions that nothing else uses: the
        calls one after the other, each followed by its test (a `break` leaves the whole block)"""
        T = loop.iter.id  # type: ignore
        us = uses.get(T, [])
        stores = [u for u in us if isinstance(u.ctx, ast.Store)]
        loads = [u for u in us if isinstance(u.ctx, ast.Load)]
        if len(stores) != 1 or any(not (isinstance(parents.get(id(u)), ast.For) and parents[id(u)].iter is u) for u in loads):  # type: ignore
            return None
        asg = parents.get(id(stores[0]))
        if not isinstance(asg, (ast.Assign, ast.AnnAssign)) or not isinstance(asg.value, (ast.List, ast.Tuple)):
            return None
        rows = asg.value.elts
        if not rows or len(rows) > 8 or not all(isinstance(r, (ast.Name, ast.Attribute)) for r in rows):
            return None
        nm = loop.target.id  # type: ignore

        def scan(stmts: List[ast.stmt]) -> bool:
            for x in stmts:
                if isinstance(x, (ast.Continue, ast.For, ast.While, ast.AsyncFor, ast.FunctionDef, ast.Try, ast.With)):
                    return False
                if isinstance(x, ast.If) and not (scan(x.body) and scan(x.orelse)):
                    return False
            return True
        if not scan(loop.body) or not any(isinstance(x, ast.Break) for b_ in loop.body for x in ast.walk(b_)):
            return None
        for u in uses.get(nm, []):
            if not any(u is x for x in ast.walk(loop)):
                return None

        class B(ast.NodeTransformer):
            def visit_Break(self, node: ast.Break) -> ast.AST:
                return ast.copy_location(InlineJump(), node)
        out: List[ast.stmt] = []
        for r in rows:
            sub = _Subst({nm: r})
            for s_ in loop.body:
                out.append(B().visit(sub.visit(copy.deepcopy(s_))))
        out += loop.orelse
        marker = ast.Call(func=ast.Name(id="__inline__", ctx=ast.Load()), args=[ast.Constant(value=f"<dispatch {T}>")], keywords=[])
        blk = InlineBlock(items=[ast.withitem(context_expr=marker, optional_vars=None)], body=out, type_comment=None)
        blk.helper = f"<dispatch {T}>"
        ast.copy_location(blk, loop)
        ast.fix_missing_locations(blk)
        log.append(f"table {T}: the loop over its {len(rows)} functions unrolled")
        unrolled.append((T, asg))
        return blk

    def try_unroll(loop: ast.For, factories: Dict[str, FuncDef], caller: Optional[FuncDef]) -> Optional[ast.stmt]:
        if isinstance(loop.iter, ast.Name) and isinstance(loop.target, ast.Name):
            return try_unroll_plain(loop, factories, caller)
        if not (isinstance(loop.iter, ast.Name) and isinstance(loop.target, (ast.Tuple, ast.List)) and all(isinstance(t, ast.Name) for t in loop.target.elts)):
            return None
        T = loop.iter.id
        us = uses.get(T, [])
        stores = [u for u in us if isinstance(u.ctx, ast.Store)]
        loads = [u for u in us if isinstance(u.ctx, ast.Load)]
        if len(stores) != 1 or any(not (isinstance(parents.get(id(u)), ast.For) and parents[id(u)].iter is u) for u in loads):  # type: ignore
            return None
        asg = parents.get(id(stores[0]))
        if not isinstance(asg, (ast.Assign, ast.AnnAssign)) or not isinstance(asg.value, (ast.List, ast.Tuple)):
            return None
        k = len(loop.target.elts)
        rows = asg.value.elts
        if not rows or not all(isinstance(r, ast.Tuple) and len(r.elts) == k for r in rows):
            return None
        if not (len(loop.body) == 1 and isinstance(loop.body[0], ast.If) and not loop.body[0].orelse and loop.body[0].body and isinstance(loop.body[0].body[-1], ast.Break)):
            return None
        inner = loop.body[0]
        if any(isinstance(x, (ast.Break, ast.Continue)) for s in inner.body[:-1] for x in ast.walk(s)):
            return None
        names = [t.id for t in loop.target.elts]  # type: ignore
        # the loop variables are not read after the loop
        for nm in names:
            for u in uses.get(nm, []):
                if not any(u is x for x in ast.walk(loop)):
                    return None
        beta = _Beta(factories)
        beta_t = _Beta(factories, predicates=True)
        out: List[ast.stmt] = []
        for r in rows:
            sub = _Subst(dict(zip(names, r.elts)))  # type: ignore
            test = sub.visit(copy.deepcopy(inner.test))
            beta_t.mark_truth(test)
            test = beta_t.visit(test)
            bd = [beta.visit(sub.visit(copy.deepcopy(s))) for s in inner.body[:-1]]
            # the handler of the row, called at statement level with simple arguments, is expanded where it is called
            if caller is not None:
                for bi, bs in enumerate(list(bd)):
                    c = _stmt_call(bs)
                    if c is not None and isinstance(c.func, ast.Name) and c.func.id in factories and any(isinstance(x, ast.Name) and x.id == c.func.id for x in ast.walk(r)) \
                            and all(_simple_arg(a) for a in c.args) and not c.keywords:
                        fd = factories[c.func.id]
                        if fd.decorator_list or fd is caller or any(isinstance(x, (ast.Yield, ast.YieldFrom, ast.Await, ast.Nonlocal, ast.Global)) for x in _own_walk(fd)) \
                                or any(isinstance(x, ast.Name) and x.id == fd.name for x in _own_walk(fd)):
                            continue
                        serial[0] += 1
                        blk_ = _expand(caller, bs, c, fd, serial[0], set(factories) - _assigned(caller))
                        if blk_ is not None:
                            bd[bi] = blk_
                            handlers.add(fd.name)
            j = InlineJump()
            ast.copy_location(j, inner.body[-1])
            arm = ast.If(test=test, body=bd + [j], orelse=[])
            ast.copy_location(arm, r)
            out.append(arm)
        out += loop.orelse
        marker = ast.Call(func=ast.Name(id="__inline__", ctx=ast.Load()), args=[ast.Constant(value=f"<dispatch {T}>")], keywords=[])
        blk = InlineBlock(items=[ast.withitem(context_expr=marker, optional_vars=None)], body=out, type_comment=None)
        blk.helper = f"<dispatch {T}>"
        ast.copy_location(blk, loop)
        ast.fix_missing_locations(blk)
        log.append(f"dispatch table {T}: {len(rows)} rules unrolled into a chain ({beta.count + beta_t.count} predicate(s) applied in place)")
        unrolled.append((T, asg))
        return blk

    unrolled: List[Tuple[str, ast.AST]] = []
    handlers: Set[str] = set()
    serial = [0]
    visit(tree, {})
    # a table whose every loop was unrolled is not needed any more
    for T, asg in unrolled:
        left = [n for n in ast.walk(tree) if isinstance(n, ast.Name) and n.id == T and isinstance(n.ctx, ast.Load)]
        if not left:
            for p in ast.walk(tree):
                for body in holders(p):
                    if any(s is asg for s in body):
                        body[:] = [s for s in body if s is not asg] or [ast.Pass()]
    # ... nor is a handler that only the table named
    for h in sorted(handlers):
        if not any(isinstance(n, ast.Name) and n.id == h and isinstance(n.ctx, ast.Load) for n in ast.walk(tree)):
            for p in ast.walk(tree):
                for body in holders(p):
                    if any(isinstance(s, ast.FunctionDef) and s.name == h for s in body):
                        body[:] = [s for s in body if not (isinstance(s, ast.FunctionDef) and s.name == h)] or [ast.Pass()]
    return log


# ---- thin methods of the package's records, across modules -------------------------------------------------------------------------------

def expand_thin_record_methods(trees: Dict[str, ast.Module], known: Dict[str, Set[str]]) -> Dict[str, List[str]]:
    """A method that a later change adds to a record of the package (NamedTuple / dataclass) and whose body is one `return <expression>` - `def with_paths(self, kept,
    loaded): return self._replace(requested_paths=kept, loaded_paths=loaded)` - is that expression: a call `<receiver>.with_paths(kept=a, loaded=b)` anywhere in the
    package reads `<receiver>._replace(requested_paths=a, loaded_paths=b)`.  Only methods the reference tree does not have, whose name no other class of the package
    defines, called on a simple receiver with arguments that can be written where the parameters stand."""
    logs: Dict[str, List[str]] = {}
    thin: Dict[str, Tuple[str, ast.ClassDef, FuncDef]] = {}
    all_methods: Dict[str, int] = {}
    for mod, tree in trees.items():
        for st in tree.body:
            if isinstance(st, ast.ClassDef):
                for m in st.body:
                    if isinstance(m, ast.FunctionDef):
                        all_methods[m.name] = all_methods.get(m.name, 0) + 1
    for mod, tree in trees.items():
        for st in tree.body:
            if not isinstance(st, ast.ClassDef):
                continue
            is_record = any(ast.unparse(b).split(".")[-1] == "NamedTuple" for b in st.bases) or any("dataclass" in ast.unparse(d) for d in st.decorator_list)
            if not is_record:
                continue
            for m in st.body:
                if not isinstance(m, ast.FunctionDef) or m.decorator_list or (m.name.startswith("__") and m.name.endswith("__")):
                    continue
                if f"{st.name}.{m.name}" in known.get(mod, set()) or all_methods.get(m.name, 0) != 1:
                    continue
                body = [x for x in m.body if not (isinstance(x, ast.Expr) and isinstance(x.value, ast.Constant))]
                a = m.args
                if len(body) == 1 and isinstance(body[0], ast.Return) and body[0].value is not None and not a.vararg and not a.kwarg and not a.kwonlyargs and not a.posonlyargs \
                        and a.args and a.args[0].arg == "self" and not any(isinstance(x, (ast.Lambda, ast.Yield, ast.Await, ast.NamedExpr)) for x in ast.walk(body[0].value)):
                    thin[m.name] = (mod, st, m)
    if not thin:
        return logs
    used: Set[str] = set()
    for mod, tree in trees.items():
        parents: Dict[int, Tuple[ast.AST, str, Optional[int]]] = {}
        for p in ast.walk(tree):
            for fld, val in ast.iter_fields(p):
                if isinstance(val, list):
                    for i, c in enumerate(val):
                        if isinstance(c, ast.AST):
                            parents[id(c)] = (p, fld, i)
                elif isinstance(val, ast.AST):
                    parents[id(val)] = (p, fld, None)
        for c in [n for n in ast.walk(tree) if isinstance(n, ast.Call)]:
            f = c.func
            if not (isinstance(f, ast.Attribute) and f.attr in thin and _simple_arg(f.value)):
                continue
            _m, _cls, fd = thin[f.attr]
            params = [x.arg for x in fd.args.args[1:]]
            defaults = fd.args.defaults
            off = len(params) - len(defaults)
            mapping: Dict[str, ast.AST] = {"self": f.value}
            ok = not any(isinstance(x, ast.Starred) for x in c.args) and len(c.args) <= len(params)
            for i, x in enumerate(c.args[:len(params)]):
                mapping[params[i]] = x
            for k in c.keywords:
                if k.arg is None or k.arg not in params or k.arg in mapping:
                    ok = False
                else:
                    mapping[k.arg] = k.value
            for i, pn in enumerate(params):
                if pn not in mapping:
                    if i >= off:
                        mapping[pn] = defaults[i - off]
                    else:
                        ok = False
            ret = fd.body[-1].value  # type: ignore
            counts: Dict[str, int] = {}
            for n in ast.walk(ret):
                if isinstance(n, ast.Name) and isinstance(n.ctx, ast.Load):
                    counts[n.id] = counts.get(n.id, 0) + 1
            if not ok or any(not _simple_arg(v) and counts.get(k_, 0) > 1 for k_, v in mapping.items()):
                continue
            new = _Subst(mapping).visit(copy.deepcopy(ret))
            ast.copy_location(new, c)
            ast.fix_missing_locations(new)
            par = parents.get(id(c))
            if par is None:
                continue
            p, fld, i = par
            if i is None:
                setattr(p, fld, new)
            else:
                getattr(p, fld)[i] = new
            used.add(f.attr)
            logs.setdefault(mod, []).append(f"call of the record method {thin[f.attr][1].name}.{f.attr} read as the expression it returns")
    # a method that is not referred to any more is dropped
    for name in used:
        mod, cls, fd = thin[name]
        if not any(isinstance(n, ast.Attribute) and n.attr == name for t in trees.values() for n in ast.walk(t)):
            cls.body[:] = [x for x in cls.body if x is not fd] or [ast.Pass()]
    return logs


# ---- small context-manager classes --------------------------------------------------------------------------------------------------------

def _fold_none_params(blk: InlineBlock) -> None:
    """in an expanded block whose parameters were bound to None (`exc_type = None`): `if exc_type is None: A else: B` is A"""
    nones = {st.targets[0].id for st in blk.body if isinstance(st, ast.Assign) and getattr(st, "_inline_bind", False) and isinstance(st.targets[0], ast.Name)
             and isinstance(st.value, ast.Constant) and st.value.value is None}
    stored_again = {n.id for st in blk.body if not getattr(st, "_inline_bind", False) for n in ast.walk(st) if isinstance(n, ast.Name) and isinstance(n.ctx, ast.Store)}
    nones -= stored_again
    if not nones:
        return

    def fold(stmts: List[ast.stmt]) -> List[ast.stmt]:
        out: List[ast.stmt] = []
        for st in stmts:
            if isinstance(st, ast.If) and isinstance(st.test, ast.Compare) and len(st.test.ops) == 1 and isinstance(st.test.left, ast.Name) and st.test.left.id in nones \
                    and isinstance(st.test.comparators[0], ast.Constant) and st.test.comparators[0].value is None and isinstance(st.test.ops[0], (ast.Is, ast.IsNot)):
                out += fold(st.body if isinstance(st.test.ops[0], ast.Is) else st.orelse)
                continue
            for fld in ("body", "orelse", "finalbody"):
                b = getattr(st, fld, None)
                if isinstance(b, list) and b and isinstance(b[0], ast.stmt):
                    setattr(st, fld, fold(b) or ([ast.Pass()] if fld == "body" else []))
            out.append(st)
        return out
    blk.body = fold(blk.body) or [ast.Pass()]
    used = {n.id for st in blk.body if not getattr(st, "_inline_bind", False) for n in ast.walk(st) if isinstance(n, ast.Name)}
    blk.body = [st for st in blk.body if not (getattr(st, "_inline_bind", False) and isinstance(st.targets[0], ast.Name) and st.targets[0].id in nones and st.targets[0].id not in used)] or [ast.Pass()]


def expand_cm_classes(tree: ast.Module, known: Set[str]) -> List[str]:
    """A private class that the reference tree does not have and that is nothing but a context manager (`__init__`, `__enter__`, `__exit__`, each a short straight
    method that touches `self` only through its attributes) is expanded where it is used, `with _C(args) as v: BODY`:

        <__init__ with the attributes as locals>; v = <__enter__>; BODY; <__exit__(None, None, None)>            when __exit__ looks at the exception it is given
        <__init__>; v = <__enter__>; try: BODY finally: <__exit__>                                             when it does not (it then runs like a finally clause)

    In the first form only the normal completion of BODY is modelled (what __exit__ does when BODY raises is not: the rules that look at exceptional exits see none)."""
    log: List[str] = []
    classes: Dict[str, ast.ClassDef] = {}
    for st in tree.body:
        if isinstance(st, ast.ClassDef) and st.name.startswith("_") and st.name not in known and not st.decorator_list:
            ms = {m.name: m for m in st.body if isinstance(m, ast.FunctionDef)}
            other = [x for x in st.body if not isinstance(x, ast.FunctionDef) and not (isinstance(x, ast.Expr) and isinstance(x.value, ast.Constant)) and not isinstance(x, (ast.AnnAssign, ast.Pass))]
            if {"__enter__", "__exit__"} <= set(ms) and set(ms) <= {"__init__", "__enter__", "__exit__"} and not other:
                if all(not any(isinstance(n, (ast.Yield, ast.YieldFrom, ast.Await, ast.FunctionDef, ast.Lambda, ast.ClassDef)) for n in _own_walk(m)) and not m.decorator_list for m in ms.values()):
                    classes[st.name] = st
    if not classes:
        return log

    def selfless(fd: FuncDef, serial: int) -> Optional[FuncDef]:
        """the method with `self.<attr>` read as the local `<attr>__cm<serial>` and without its self parameter; None when self is used otherwise"""
        fd2 = copy.deepcopy(fd)
        if not fd2.args.args or fd2.args.args[0].arg != "self":
            return None
        fd2.args.args = fd2.args.args[1:]
        bad = []

        class S(ast.NodeTransformer):
            def visit_Attribute(self, node: ast.Attribute) -> ast.AST:
                if isinstance(node.value, ast.Name) and node.value.id == "self":
                    return ast.copy_location(ast.Name(id=f"{node.attr.strip('_')}__cm{serial}", ctx=node.ctx), node)
                self.generic_visit(node)
                return node

            def visit_Name(self, node: ast.Name) -> ast.AST:
                if node.id == "self":
                    bad.append(node)
                return node
        S().visit(fd2)
        fd2.body = [x for x in fd2.body if not (isinstance(x, ast.AnnAssign) and x.value is None)] or [ast.Pass()]
        return None if bad else ast.fix_missing_locations(fd2)

    funcs: List[FuncDef] = []
    for n in ast.walk(tree):
        if isinstance(n, ast.FunctionDef) and not any(n in c.body for c in classes.values()):
            funcs.append(n)
    serial = 0
    used: Set[str] = set()
    for caller in funcs:
        for holder in [caller] + [x for x in _own_walk(caller) if hasattr(x, "body")]:
            for fld in ("body", "orelse", "finalbody"):
                b = getattr(holder, fld, None)
                if not (isinstance(b, list) and b and isinstance(b[0], ast.stmt)):
                    continue
                i = 0
                while i < len(b):
                    w = b[i]
                    i += 1
                    if not (isinstance(w, ast.With) and not isinstance(w, InlineBlock) and len(w.items) == 1 and isinstance(w.items[0].context_expr, ast.Call)
                            and isinstance(w.items[0].context_expr.func, ast.Name) and w.items[0].context_expr.func.id in classes):
                        continue
                    ctor = w.items[0].context_expr
                    cls = classes[ctor.func.id]  # type: ignore
                    ms = {m.name: m for m in cls.body if isinstance(m, ast.FunctionDef)}
                    serial += 1
                    parts: List[ast.stmt] = []
                    okk = True
                    blocks = {}
                    for mname in ("__init__", "__enter__", "__exit__"):
                        if mname not in ms:
                            continue
                        fd2 = selfless(ms[mname], serial)
                        if fd2 is None:
                            okk = False
                            break
                        fd2.name = f"{cls.name.strip('_')}_{mname.strip('_')}"
                        if mname == "__init__":
                            call = ast.Call(func=ast.Name(id=fd2.name, ctx=ast.Load()), args=list(ctor.args), keywords=list(ctor.keywords))
                            stx: ast.stmt = ast.Expr(value=call)
                        elif mname == "__enter__":
                            call = ast.Call(func=ast.Name(id=fd2.name, ctx=ast.Load()), args=[], keywords=[])
                            v = w.items[0].optional_vars
                            stx = ast.Assign(targets=[copy.deepcopy(v)], value=call, type_comment=None) if isinstance(v, ast.Name) else ast.Expr(value=call)
                            if v is not None and not isinstance(v, ast.Name):
                                okk = False
                                break
                        else:
                            call = ast.Call(func=ast.Name(id=fd2.name, ctx=ast.Load()), args=[ast.Constant(value=None)] * len(fd2.args.args), keywords=[])
                            stx = ast.Expr(value=call)
                        ast.copy_location(stx, w)
                        ast.fix_missing_locations(stx)
                        blk = _expand(caller, stx, call, fd2, serial)
                        if blk is None:
                            okk = False
                            break
                        blocks[mname] = blk
                    if not okk or "__enter__" not in blocks or "__exit__" not in blocks:
                        continue
                    ex = ms["__exit__"]
                    exc_params = {a.arg for a in ex.args.args[1:]}
                    looks = any(isinstance(n_, ast.Name) and n_.id in exc_params for n_ in _own_walk(ex))
                    if looks:
                        _fold_none_params(blocks["__exit__"])
                    if "__init__" in blocks:
                        parts.append(blocks["__init__"])
                    parts.append(blocks["__enter__"])
                    if looks:
                        parts += list(w.body) + [blocks["__exit__"]]
                    else:
                        tr = ast.Try(body=list(w.body), handlers=[], orelse=[], finalbody=[blocks["__exit__"]])
                        ast.copy_location(tr, w)
                        parts.append(ast.fix_missing_locations(tr))
                    b[i - 1:i] = parts
                    i += len(parts) - 1
                    used.add(cls.name)
                    log.append(f"context manager {cls.name} expanded in {caller.name}" + ("" if not looks else " (normal completion of the body)"))
    for name in used:
        if not any(isinstance(n, ast.Name) and n.id == name for n in ast.walk(tree)):
            tree.body[:] = [x for x in tree.body if x is not classes[name]]
    return sorted(set(log))


# ---- a record held in an attribute ------------------------------------------------------------------------------------------------------------

def flatten_attribute_records(tree: ast.Module, known: Set[str]) -> List[str]:
    """`self._layout = _Layout(internal_dir=a, data_dir=b)` in a constructor, where `_Layout` is a private record (dataclass / NamedTuple) that the reference tree does
    not have, and every other mention of `self._layout` in the class is a read of one of its fields: the class holds the fields themselves -
    `self._layout__internal_dir = a`, `self._layout__data_dir = b`, reads accordingly.  (Methods of the record with one `return` were expanded before.)"""
    log: List[str] = []
    records: Dict[str, List[str]] = {}
    for st in tree.body:
        if isinstance(st, ast.ClassDef) and st.name.startswith("_") and st.name not in known:
            is_record = any(ast.unparse(b).split(".")[-1] == "NamedTuple" for b in st.bases) or any("dataclass" in ast.unparse(d) for d in st.decorator_list)
            if is_record:
                records[st.name] = [x.target.id for x in st.body if isinstance(x, ast.AnnAssign) and isinstance(x.target, ast.Name)]
    if not records:
        return log
    for cls in [st for st in tree.body if isinstance(st, ast.ClassDef) and st.name not in records]:
        init = next((m for m in cls.body if isinstance(m, ast.FunctionDef) and m.name == "__init__"), None)
        if init is None:
            continue
        for asg in [x for x in ast.walk(init) if isinstance(x, (ast.Assign, ast.AnnAssign))]:
            tg = asg.targets[0] if isinstance(asg, ast.Assign) and len(asg.targets) == 1 else (asg.target if isinstance(asg, ast.AnnAssign) else None)
            v = asg.value
            if not (isinstance(tg, ast.Attribute) and isinstance(tg.value, ast.Name) and tg.value.id == "self" and isinstance(v, ast.Call) and isinstance(v.func, ast.Name)
                    and v.func.id in records):
                continue
            attr, fields = tg.attr, records[v.func.id]
            vals: Dict[str, ast.AST] = {}
            ok = len(v.args) <= len(fields) and not any(isinstance(a, ast.Starred) for a in v.args)
            for i, a in enumerate(v.args[:len(fields)]):
                vals[fields[i]] = a
            for k in v.keywords:
                if k.arg in fields and k.arg not in vals:
                    vals[k.arg] = k.value
                else:
                    ok = False
            if not ok or set(vals) != set(fields):
                continue
            # every other mention of self.<attr> is `self.<attr>.<field>` (a read)
            mentions = [n for n in ast.walk(cls) if isinstance(n, ast.Attribute) and n.attr == attr and isinstance(n.value, ast.Name) and n.value.id == "self" and n is not tg]
            par: Dict[int, ast.AST] = {}
            for p_ in ast.walk(cls):
                for c_ in ast.iter_child_nodes(p_):
                    par[id(c_)] = p_
            rcls = next(x for x in tree.body if isinstance(x, ast.ClassDef) and x.name == v.func.id)
            statics = {m_.name for m_ in rcls.body if isinstance(m_, ast.FunctionDef) and any(ast.unparse(d_) in ("staticmethod", "classmethod") for d_ in m_.decorator_list)}
            if not all(isinstance(par.get(id(n)), ast.Attribute) and par[id(n)].value is n and (par[id(n)].attr in fields or par[id(n)].attr in statics)  # type: ignore
                       and isinstance(par[id(n)].ctx, ast.Load) for n in mentions):  # type: ignore
                continue
            # a static / class method reached through the instance is the method of the class
            for n in mentions:
                pa = par[id(n)]
                if pa.attr in statics:  # type: ignore
                    pa.value = ast.copy_location(ast.Name(id=rcls.name, ctx=ast.Load()), n)  # type: ignore
            if any(isinstance(n, ast.Attribute) and n.attr == attr and not (isinstance(n.value, ast.Name) and n.value.id == "self") for n in ast.walk(tree)):
                continue  # read from outside through another name: left alone

            class R(ast.NodeTransformer):
                def visit_Attribute(self, node: ast.Attribute) -> ast.AST:
                    if isinstance(node.value, ast.Attribute) and node.value.attr == attr and isinstance(node.value.value, ast.Name) and node.value.value.id == "self" and node.attr in fields:
                        return ast.copy_location(ast.Attribute(value=ast.Name(id="self", ctx=ast.Load()), attr=f"{attr}__{node.attr}", ctx=node.ctx), node)
                    self.generic_visit(node)
                    return node
            R().visit(cls)
            new = []
            for fld in fields:
                a2 = ast.Assign(targets=[ast.Attribute(value=ast.Name(id="self", ctx=ast.Load()), attr=f"{attr}__{fld}", ctx=ast.Store())], value=vals[fld], type_comment=None)
                new.append(ast.fix_missing_locations(ast.copy_location(a2, asg)))
            for holder in ast.walk(init):
                for bf in ("body", "orelse", "finalbody"):
                    b = getattr(holder, bf, None)
                    if isinstance(b, list) and any(x is asg for x in b):
                        i = [j for j, x in enumerate(b) if x is asg][0]
                        b[i:i + 1] = new
            ast.fix_missing_locations(cls)
            log.append(f"{cls.name}: the record `self.{attr}` ({v.func.id}) held as its fields")
    return log

