"""
Obligations, three-valued verdicts, known findings, evidence and exit codes.
"""
from __future__ import annotations

import json
import os
import time
from typing import Any, Dict, List, Optional

VERIF_DIR = os.path.dirname(os.path.dirname(os.path.abspath(__file__)))

DISCHARGED = "discharged"
VIOLATED = "violated"
UNDECIDED = "undecided"
INFO = "info"


class Obligation:
    def __init__(
        self,
        rule: str,
        site: str,
        desc: str,
        verdict: str,
        where: str = "",
        witness: Optional[List[str]] = None,
        key: str = "",
        nontrivial: bool = True,
        what: str = "",
    ):
        self.rule = rule
        self.site = site
        self.desc = desc
        self.verdict = verdict
        self.where = where
        self.witness = witness or []
        self.key = key
        self.nontrivial = nontrivial
        self.what = what  # short phrase used in KNOWN-FINDING lines
        self.known = False

    def ident(self) -> Dict[str, str]:
        return {"rule": self.rule, "site": self.site, "construct": self.key}

    def to_json(self) -> Dict[str, Any]:
        d: Dict[str, Any] = {
            "rule": self.rule,
            "site": self.site,
            "obligation": self.desc,
            "verdict": self.verdict,
            "where": self.where,
        }
        if self.witness:
            d["witness"] = self.witness
        if self.key:
            d["construct"] = self.key
        if self.known:
            d["known_finding"] = True
        return d


class Report:
    def __init__(self, prop: str, tier: str, seed: int, repo: str):
        self.prop = prop
        self.tier = tier
        self.seed = seed
        self.repo = repo
        self.obligations: List[Obligation] = []
        self.floors: Dict[str, Dict[str, int]] = {}
        # role label of a function found by role (its private name may change): known findings are keyed by the label
        self.roles: Dict[str, str] = {}
        self.notes: List[str] = []
        self.analysed: Dict[str, Any] = {}
        self.rules_applied: Dict[str, str] = {}
        self.selftest: Dict[str, Any] = {}
        self.errors: List[str] = []
        self.t0 = time.time()

    # -- recording ----------------------------------------------------------------------
    def add(self, ob: Obligation) -> Obligation:
        self.obligations.append(ob)
        return ob

    def ok(self, rule: str, site: str, desc: str, where: str = "", nontrivial: bool = True) -> Obligation:
        return self.add(Obligation(rule, site, desc, DISCHARGED, where, nontrivial=nontrivial))

    def bad(self, rule: str, site: str, desc: str, where: str, witness: List[str], key: str, what: str = "") -> Obligation:
        return self.add(Obligation(rule, site, desc, VIOLATED, where, witness, key, what=what or desc))

    def unknown(self, rule: str, site: str, desc: str, where: str = "", witness: Optional[List[str]] = None) -> Obligation:
        return self.add(Obligation(rule, site, desc, UNDECIDED, where, witness))

    def info(self, rule: str, site: str, desc: str, where: str = "") -> Obligation:
        return self.add(Obligation(rule, site, desc, INFO, where, nontrivial=False))

    def rule(self, rule: str, text: str) -> None:
        self.rules_applied[rule] = text

    def floor(self, rule: str, found: int, minimum: int) -> None:
        self.floors[rule] = {"instances": found, "floor": minimum}
        if found < minimum:
            self.errors.append(
                f"floor not met for {rule}: matched {found} instance(s), at least {minimum} were confirmed by hand"
            )

    def error(self, msg: str) -> None:
        self.errors.append(msg)

    # -- known findings -----------------------------------------------------------------
    def apply_known(self, path: Optional[str] = None) -> None:
        p = path or os.path.join(VERIF_DIR, "known_findings.json")
        try:
            with open(p) as f:
                data = json.load(f)
        except FileNotFoundError:
            data = {"findings": []}
        for ob in self.obligations:
            if ob.verdict != VIOLATED:
                continue
            for e in data.get("findings", []):
                if e.get("status") != "known":
                    continue
                if e.get("property") == self.prop and e.get("rule") == ob.rule and e.get("site") in (ob.site, self.roles.get(ob.site)) and (
                    not e.get("construct") or e.get("construct") == ob.key
                ):
                    ob.known = True
                    ob.what = e.get("what", ob.what)

    # -- output -------------------------------------------------------------------------
    def finish(self, write_evidence: bool = True, quiet: bool = False) -> int:
        self.apply_known()
        viol = [o for o in self.obligations if o.verdict == VIOLATED and not o.known]
        known = [o for o in self.obligations if o.verdict == VIOLATED and o.known]
        und = [o for o in self.obligations if o.verdict == UNDECIDED]
        dis = [o for o in self.obligations if o.verdict == DISCHARGED]
        wall = time.time() - self.t0
        replay_dir = os.path.join(VERIF_DIR, "evidence", "replay")
        lines: List[str] = []
        for i, o in enumerate(viol):
            os.makedirs(replay_dir, exist_ok=True)
            rp = os.path.join(replay_dir, f"{self.prop}-{o.rule.split('.')[-1]}-{i}.json")
            with open(rp, "w") as f:
                json.dump({"property": self.prop, **o.ident(), "obligation": o.desc, "where": o.where,
                           "witness": o.witness}, f, indent=1)
            lines.append(f"VIOLATION property={self.prop} replay={rp}")
            lines.append(f"  rule {o.rule} at {o.where} in {o.site}: {o.desc}")
            for w in o.witness[:12]:
                lines.append(f"    {w}")
        for o in known:
            lines.append(f"KNOWN-FINDING: property={self.prop} {o.rule} {o.site}: {o.what}")
        for o in und:
            lines.append(f"ANALYSIS-ERROR undecided property={self.prop} rule={o.rule} site={o.site} at {o.where}: {o.desc}")
            for w in o.witness[:8]:
                lines.append(f"    {w}")
        for e in self.errors:
            lines.append(f"ANALYSIS-ERROR property={self.prop} {e}")
        if write_evidence:
            self._write_evidence(wall, viol, known, und, dis)
        if not quiet:
            print(
                f"[{self.prop}] tier={self.tier} obligations={len(self.obligations)} discharged={len(dis)} "
                f"violated={len(viol)} known={len(known)} undecided={len(und)} errors={len(self.errors)} "
                f"wall={wall:.2f}s"
            )
            for r, fl in sorted(self.floors.items()):
                print(f"  {r}: {fl['instances']} instance(s) (floor {fl['floor']})")
            for ln in lines:
                print(ln)
        if viol:
            return 1
        if und or self.errors:
            return 2
        return 0

    def _write_evidence(self, wall: float, viol, known, und, dis) -> None:
        obs = [o for o in self.obligations if o.verdict != INFO]
        distinct = {(o.rule, o.site, o.desc) for o in obs if o.nontrivial}
        samples = [o.to_json() for o in (viol + known + und)[:10]]
        per_rule: Dict[str, List[Obligation]] = {}
        for o in dis:
            per_rule.setdefault(o.rule, []).append(o)
        for r in sorted(per_rule):
            samples += [o.to_json() for o in per_rule[r][:2]]
        cov: Dict[str, Any] = {
            "explanation": (
                "Static analysis of /repo's current working tree (ast + CFG with exceptional edges + "
                "reaching definitions / interprocedural backward slices + mypy type facts + finite-domain "
                "abstract evaluation). Nothing of dds is executed. Each obligation is a rule instance at a "
                "site found by role; verdicts are discharged / violated / undecided."
            ),
            "evaluations": len(obs),
            "distinct_nontrivial": len(distinct),
            "rule": (
                "obligations are enumerated from the code (every site matching a rule's anchor role); an "
                "obligation is non-trivial when deciding it required a CFG path / dominance query, a def-use "
                "slice, a type fact or an abstract evaluation (not the mere presence of a name); distinct by "
                "(rule, site, obligation text)"
            ),
            "obligations": len(obs),
            "discharged": len(dis),
            "violated": len(viol),
            "known_findings": len(known),
            "undecided": len(und),
            "exhaustive": True,
            "rules": self.rules_applied,
            "instances_vs_floor": self.floors,
            "analysed": self.analysed,
            "informational": [o.to_json() for o in self.obligations if o.verdict == INFO][:20],
            "samples": samples,
            "checker_cmd": f"/verif/check {self.prop} --tier {self.tier}",
            "trusted_base": ["CPython ast parser", "mypy 1.5.1 type inference (receiver and set types only)",
                             "the ddsverif engine (validated by the variant corpus in the thorough tier)"],
        }
        if self.selftest:
            cov["selftest"] = self.selftest
        if self.notes:
            cov["notes"] = self.notes
        ev = {
            "property_id": self.prop,
            "tier": self.tier,
            "seed": self.seed,
            "level": "other",
            "coverage": cov,
            "assumptions": [
                "the source under /repo/dds is what is imported at run time",
                "explicit data flow only unless a rule states that control dependence is followed",
                "statement-level, synchronous exception model (every call may raise)",
            ],
            "wall_s": round(wall, 3),
            "violations": len(viol),
        }
        out = os.path.join(VERIF_DIR, "evidence", f"{self.prop}.json")
        os.makedirs(os.path.dirname(out), exist_ok=True)
        tmp = out + ".tmp"
        with open(tmp, "w") as f:
            json.dump(ev, f, indent=1, sort_keys=False)
        os.replace(tmp, out)
