"""
Path terms and file-system effect summaries of store methods.

A store method is walked in source order (both arms of every branch, loop bodies once with the loop
variables bound symbolically) and every call with a file-system effect is recorded as an Effect on a
*term*: a symbolic description of the path it touches, built from the store's root attributes, the
KEY / PATH symbols and literals.  Package-local helpers (methods and module functions) are inlined
through their return terms and their own effects, so `_atomic_write(p)` style refactorings are seen
through.  Codec calls are resolved by class-hierarchy analysis to the effects of every implementation.

Terms (tuples):
  ("sym", NAME)            KEY, PATH, PATHS, BLOB, or a parameter
  ("attr", NAME)           self.NAME (expanded through the constructor on request)
  ("lit", "text")
  ("join", t1, t2, ...)    os.path.join / joinpath / "/"
  ("cat", t1, t2, ...)     string concatenation / f-string
  ("segs", quality, why)   the segments of PATH; quality in {"exact", "lossy"}
  ("star", t)              *t inside a join
  ("dirname", t) ("abs", t) ("real", t) ("index", t, i) ("unique", how) ("pid",) ("call", name, ...)
"""
from __future__ import annotations

import ast
from typing import Any, Dict, List, Optional, Tuple, Iterable, Set

from .model import Program, Func, Class, unparse, f_cls, const_str, NOT_CONST
from .inline import InlineBlock, InlineJump

Term = Tuple[Any, ...]

PROBES = {"os.path.exists", "os.path.isdir", "os.path.isfile", "os.path.islink", "os.path.lexists", "os.stat", "os.lstat",
          "os.listdir", "os.access"}
WRAPPERS = {"str", "pathlib.PurePath", "pathlib.Path", "pathlib.PurePosixPath", "dds.structures.GenericLocation",
            "dds.structures.PyHash", "dds.structures.DDSPath", "os.fspath", "os.path.expanduser"}


class Effect:
    def __init__(self, kind: str, term: Term, node: ast.AST, func: Func, conds: List[Tuple[ast.AST, bool]],
                 src: Optional[Term] = None, extra: Optional[Dict[str, Any]] = None, via: Optional[List[str]] = None,
                 handlers: Optional[List[str]] = None, order: int = 0):
        self.kind, self.term, self.node, self.func, self.conds = kind, term, node, func, list(conds)
        self.src, self.extra, self.via = src, extra or {}, via or []
        self.handlers = handlers or []
        self.order = order
        self.root_node: ast.AST = node  # the call in the summarised method through which the effect happens (helpers inlined)
        self.root_func: Func = func

    def where(self) -> str:
        return f"{self.func.module.relpath}:{getattr(self.node, 'lineno', '?')}"

    def __repr__(self) -> str:
        s = f"{self.kind}({show(self.term)}"
        if self.src is not None:
            s += f" <- {show(self.src)}"
        return s + ")"


def show(t: Any) -> str:
    if not isinstance(t, tuple) or not t:
        return str(t)
    k = t[0]
    if k == "sym":
        return t[1]
    if k == "attr":
        return f"self.{t[1]}"
    if k == "lit":
        return repr(t[1])
    if k == "join":
        return "join(" + ", ".join(show(x) for x in t[1:]) + ")"
    if k == "cat":
        return " + ".join(show(x) for x in t[1:])
    if k == "segs":
        return f"segments(PATH:{t[1]}{'; ' + t[2] if len(t) > 2 and t[2] else ''})"
    if k == "star":
        return "*" + show(t[1])
    if k == "unique":
        return f"<unique:{t[1]}>"
    if k == "pid":
        return "<pid>"
    return k + "(" + ", ".join(show(x) for x in t[1:]) + ")"


def flatten(t: Any) -> Any:
    if not isinstance(t, tuple) or not t:
        return t
    k = t[0]
    args = [flatten(x) for x in t[1:]]
    if k in ("join", "cat"):
        out: List[Any] = []
        for a in args:
            if isinstance(a, tuple) and a and a[0] == k:
                out += list(a[1:])
            else:
                out.append(a)
        if k == "cat":
            # merge adjacent literals
            merged: List[Any] = []
            for a in out:
                if merged and isinstance(a, tuple) and a[0] == "lit" and isinstance(merged[-1], tuple) and merged[-1][0] == "lit":
                    merged[-1] = ("lit", merged[-1][1] + a[1])
                else:
                    merged.append(a)
            out = merged
        if len(out) == 1 and k == "cat":
            return out[0]
        return (k,) + tuple(out)
    return (k,) + tuple(args)


def contains(t: Any, pred) -> bool:
    if pred(t):
        return True
    if isinstance(t, tuple):
        return any(contains(x, pred) for x in t[1:])
    return False


def mentions_sym(t: Any, name: str) -> bool:
    return contains(t, lambda x: isinstance(x, tuple) and len(x) > 1 and x[0] == "sym" and x[1] == name) or (
        name == "PATH" and contains(t, lambda x: isinstance(x, tuple) and x and x[0] == "segs"))


def mentions_attr(t: Any, name: str) -> bool:
    return contains(t, lambda x: isinstance(x, tuple) and len(x) > 1 and x[0] == "attr" and x[1] == name)


def _index(t: Term, i: Any) -> Term:
    """the i-th component of a tuple display is that component"""
    if isinstance(t, tuple) and t and t[0] == "tuple" and isinstance(i, int) and not isinstance(i, bool) and -(len(t) - 1) <= i < len(t) - 1:
        return t[1:][i]
    return ("index", t, i)


class StoreModel:
    """Effect summaries for one store class."""

    def __init__(self, prog: Program, cls: Class, types: Any = None):
        self.prog = prog
        self.cls = cls
        self.types = types
        self.attr_defs: Dict[str, Term] = {}
        self.attr_def_exprs: Dict[str, ast.AST] = {}
        self.ctor_params: List[str] = []
        self._counter = 0
        self.join_sites: List[Tuple[Func, ast.Call, Term]] = []
        self.expr_terms: Dict[int, Term] = {}
        init = prog.find_method(cls.qname, "__init__")
        self.init = init
        if init is not None and f_cls(init) is cls:
            self.ctor_params = init.positional_params()
        self.init_effects: List[Effect] = self.effects_of("__init__") if init is not None and f_cls(init) is cls else []

    # ------------------------------------------------------------------ public
    def effects_of(self, method: str) -> List[Effect]:
        f = self.prog.find_method(self.cls.qname, method)
        if f is None or f_cls(f) is None or f_cls(f).qname != self.cls.qname:  # type: ignore
            return []
        env: Dict[str, Term] = {}
        ps = f.positional_params()
        roles = {
            "has_blob": ["KEY"], "fetch_blob": ["KEY"], "store_blob": ["KEY", "BLOB", "CODEC"],
            "sync_paths": ["PATHS_MAP"], "fetch_paths": ["PATHS_LIST"],
        }.get(method)
        for i, p in enumerate(ps):
            if roles and i < len(roles):
                env[p] = ("sym", roles[i])
            elif method == "__init__":
                env[p] = ("ctor", i, p)
            else:
                env[p] = ("sym", p)
        out: List[Effect] = []
        self._walk(f.node.body, f, env, [], out, [], 0)
        for i, e in enumerate(out):
            e.order = i
        return out

    def location_term(self, method: str, kinds: Iterable[str]) -> List[Effect]:
        ks = set(kinds)
        return [e for e in self.effects_of(method) if e.kind in ks]

    # ------------------------------------------------------------------ walking
    def _walk(self, stmts: List[ast.stmt], f: Func, env: Dict[str, Term], conds: List[Tuple[ast.AST, bool]],
              out: List[Effect], handlers: List[str], depth: int) -> Optional[Term]:
        """Walks statements; returns the term of a `return` value if one is met on the fall-through path."""
        ret: Optional[Term] = None
        for st in stmts:
            if isinstance(st, (ast.Assign, ast.AnnAssign)):
                val = st.value
                if val is None:
                    continue
                t = self._expr(val, f, env, conds, out, handlers, depth)
                targets = st.targets if isinstance(st, ast.Assign) else [st.target]
                for tg in targets:
                    if isinstance(tg, ast.Subscript) and isinstance(tg.value, ast.Name) and tg.value.id in env:
                        # d[k] = v on a local mapping: remember what its items look like (loops over it later are
                        # bound component-wise, e.g. a two-pass `stale[path] = key` ... `for (path, key) in stale.items()`)
                        cur = env[tg.value.id]
                        is_map = isinstance(cur, tuple) and cur and (cur[0] in ("dict", "mapping") or (
                            cur[0] == "call" and isinstance(cur[1], str) and cur[1].split(".")[-1] in ("OrderedDict", "dict") and len(cur) == 2))
                        if is_map:
                            kt = self._expr(tg.slice, f, env, conds, out, handlers, depth)
                            new = ("mapping", kt, t)
                            env[tg.value.id] = new if cur[0] != "mapping" or cur == new else ("mapping", ("phi", cur[1], kt), ("phi", cur[2], t))
                            continue
                    self._bind(tg, t, val, f, env)
            elif isinstance(st, ast.AugAssign):
                t = self._expr(st.value, f, env, conds, out, handlers, depth)
                if isinstance(st.target, ast.Name):
                    cur = env.get(st.target.id, ("sym", st.target.id))
                    env[st.target.id] = flatten(("cat", cur, t)) if isinstance(st.op, ast.Add) else ("call", "aug", cur, t)
            elif isinstance(st, ast.Expr):
                self._expr(st.value, f, env, conds, out, handlers, depth)
            elif isinstance(st, ast.Return):
                if st.value is not None:
                    ret = self._expr(st.value, f, env, conds, out, handlers, depth)
                return ret
            elif isinstance(st, ast.If):
                self._expr(st.test, f, env, conds, out, handlers, depth)
                e1, e2 = dict(env), dict(env)
                r1 = self._walk(st.body, f, e1, conds + [(st.test, True)], out, handlers, depth)
                r2 = self._walk(st.orelse, f, e2, conds + [(st.test, False)], out, handlers, depth)
                j1 = bool(st.body) and _ends_with_jump(st.body)
                j2 = bool(st.orelse) and _ends_with_jump(st.orelse)
                if j1 != j2:
                    # one branch left the enclosing expanded helper (its variables were recorded at the jump): what follows sees the other one
                    env.update(e2 if j1 else e1)
                else:
                    for k in set(e1) | set(e2):
                        a, b = e1.get(k), e2.get(k)
                        if a == b and a is not None:
                            env[k] = a
                        elif a is not None and b is not None:
                            env[k] = ("phi", a, b)
                        else:
                            env[k] = a if a is not None else b  # type: ignore
                if r1 is not None and r2 is not None:
                    return r1 if r1 == r2 else ("phi", r1, r2)
                # `if v is None: <leaves>`: afterwards v is not None (an `X or None` / Optional helper result loses its None arm)
                t_ = st.test
                if isinstance(t_, ast.Compare) and len(t_.ops) == 1 and isinstance(t_.left, ast.Name) and isinstance(t_.comparators[0], ast.Constant) \
                        and t_.comparators[0].value is None and t_.left.id in env:
                    leaves_when_none = (isinstance(t_.ops[0], ast.Is) and _terminates(st.body)) or (isinstance(t_.ops[0], ast.IsNot) and st.orelse and _terminates(st.orelse))
                    if leaves_when_none:
                        env[t_.left.id] = _strip_none(env[t_.left.id])
                # a branch that always leaves (return / raise): the rest runs under the negated test
                if _terminates(st.body) and not _terminates(st.orelse):
                    conds = conds + [(st.test, False)]
                elif _terminates(st.orelse) and st.orelse and not _terminates(st.body):
                    conds = conds + [(st.test, True)]
                if ret is None:
                    ret = r1 if r1 is not None else r2
                    if ret is not None and (r1 is None) != (r2 is None):
                        # one branch returned: continue with the other one, keep the candidate
                        pass
            elif isinstance(st, (ast.For, ast.AsyncFor)):
                it = self._expr(st.iter, f, env, conds, out, handlers, depth)
                if isinstance(it, tuple) and it and it[0] == "segs" and isinstance(st.target, ast.Name):
                    self._seg_loop(st, it, f, env, conds, out, handlers, depth)
                    continue
                self._bind_loop(st.target, it, st.iter, f, env)
                self._walk(st.body, f, env, conds, out, handlers, depth)
                self._walk(st.orelse, f, env, conds, out, handlers, depth)
            elif isinstance(st, ast.While):
                self._expr(st.test, f, env, conds, out, handlers, depth)
                self._walk(st.body, f, env, conds + [(st.test, True)], out, handlers, depth)
            elif isinstance(st, InlineJump):
                jumps = self.__dict__.setdefault("_jumps", [])
                if jumps:
                    jumps[-1].append(dict(env))
                return ret
            elif isinstance(st, InlineBlock):
                # an expanded helper: the variables at its end are those of its exits (each `return` became a jump here)
                jumps = self.__dict__.setdefault("_jumps", [])
                jumps.append([])
                r = self._walk(st.body, f, env, conds, out, handlers, depth)
                snaps = jumps.pop()
                envs = snaps + ([dict(env)] if not _ends_with_jump(st.body) else [])
                if envs:
                    merged = _merge_envs(envs)
                    env.clear()
                    env.update(merged)
                if r is not None:
                    return r
            elif isinstance(st, (ast.With, ast.AsyncWith)):
                for item in st.items:
                    t = self._expr(item.context_expr, f, env, conds, out, handlers, depth)
                    if item.optional_vars is not None:
                        self._bind(item.optional_vars, t, item.context_expr, f, env)
                r = self._walk(st.body, f, env, conds, out, handlers, depth)
                if r is not None:
                    return r
            elif isinstance(st, ast.Try):
                hs = []
                for h in st.handlers:
                    hs += [unparse(h.type)] if h.type is not None else ["BaseException"]
                self._walk(st.body, f, env, conds, out, handlers + hs, depth)
                for h in st.handlers:
                    self._walk(h.body, f, dict(env), conds, out, handlers, depth)
                self._walk(st.orelse, f, env, conds, out, handlers, depth)
                self._walk(st.finalbody, f, env, conds, out, handlers, depth)
            elif isinstance(st, ast.Raise):
                if st.exc is not None:
                    self._expr(st.exc, f, env, conds, out, handlers, depth)
                return ret
            elif isinstance(st, ast.Assert):
                self._expr(st.test, f, env, conds, out, handlers, depth)
        return ret

    def _bind(self, tg: ast.AST, t: Term, val: ast.AST, f: Func, env: Dict[str, Term]) -> None:
        if isinstance(tg, ast.Name):
            env[tg.id] = t
        elif isinstance(tg, ast.Attribute) and isinstance(tg.value, ast.Name) and tg.value.id == "self":
            if f.name == "__init__":
                self.attr_defs[tg.attr] = t
                self.attr_def_exprs[tg.attr] = val
        elif isinstance(tg, (ast.Tuple, ast.List)):
            for i, e in enumerate(tg.elts):
                self._bind(e, _index(t, i), val, f, env)

    def _seg_loop(self, st: ast.For, it: Term, f: Func, env: Dict[str, Term], conds, out: List[Effect], handlers: List[str], depth: int) -> None:
        """`for s in <segments of the path>:` with `xs.append(s)` into an empty local list: xs holds the segments again
        (exactly when every `continue` only skips empty segments and the appended value is the segment itself)"""
        tgt = st.target.id  # type: ignore
        qual, why = it[1], (it[2] if len(it) > 2 else "")
        accs: Dict[str, List[ast.Call]] = {}
        for n in ast.walk(ast.Module(body=st.body, type_ignores=[])):
            if isinstance(n, ast.Call) and isinstance(n.func, ast.Attribute) and n.func.attr == "append" and isinstance(n.func.value, ast.Name) \
                    and env.get(n.func.value.id) in (("tuple",), ("call", "list")) and len(n.args) == 1:
                accs.setdefault(n.func.value.id, []).append(n)

        def scan(stmts: List[ast.stmt], guard: Optional[Tuple[ast.AST, bool]]) -> None:
            nonlocal qual, why
            for k_, x in enumerate(stmts):
                if isinstance(x, ast.Break) and k_ > 0 and isinstance(stmts[k_ - 1], ast.Assign) and len(stmts[k_ - 1].targets) == 1 \
                        and isinstance(stmts[k_ - 1].targets[0], ast.Name) and stmts[k_ - 1].targets[0].id in accs \
                        and isinstance(stmts[k_ - 1].value, (ast.List, ast.Tuple)) and not stmts[k_ - 1].value.elts and len(accs) == 1:
                    # `segments = []; break`: the whole collection is given up (a refusal marker that the code after the loop tests), nothing is dropped from a
                    # collection that is used: the location is built from all the segments or not at all (whether it IS refused is the confinement rule's business)
                    continue
                if isinstance(x, ast.Continue):
                    if guard is None or not _skips_only_empty(guard[0], guard[1], st.target):
                        qual, why = "lossy", f"`continue` at line {x.lineno} skips non-empty segments"
                elif isinstance(x, ast.Break):
                    qual, why = "lossy", f"`break` at line {x.lineno}: the remaining segments are dropped"
                elif isinstance(x, ast.If):
                    scan(x.body, (x.test, True))
                    scan(x.orelse, (x.test, False))
                elif isinstance(x, (ast.With, ast.Try)):
                    scan(x.body, guard)
        scan(st.body, None)
        env[tgt] = ("seg",)
        for name, calls in accs.items():
            for c in calls:
                elt = self._expr(c.args[0], f, dict(env), conds, [], handlers, depth)
                if elt != ("seg",):
                    if isinstance(elt, tuple) and elt and elt[0] == "lossy":
                        qual, why = "lossy", elt[1]
                    else:
                        qual, why = "lossy", f"segment mapped through {show(elt)}"
        self._walk(st.body, f, env, conds, out, handlers, depth)
        self._walk(st.orelse, f, env, conds, out, handlers, depth)
        for name in accs:
            env[name] = ("segs", qual, why)

    def _bind_loop(self, target: ast.AST, it: Term, iter_expr: ast.AST, f: Func, env: Dict[str, Term]) -> None:
        base = it
        if isinstance(it, tuple) and it[0] == "call" and it[1] in ("items",) and len(it) > 2:
            base = it[2]
            if base == ("sym", "PATHS_MAP") and isinstance(target, (ast.Tuple, ast.List)) and len(target.elts) == 2:
                self._bind(target.elts[0], ("sym", "PATH"), iter_expr, f, env)
                self._bind(target.elts[1], ("sym", "KEY"), iter_expr, f, env)
                return
            mp = _as_mapping(base)
            if mp is not None and isinstance(target, (ast.Tuple, ast.List)) and len(target.elts) == 2:
                self._bind(target.elts[0], mp[1], iter_expr, f, env)
                self._bind(target.elts[1], mp[2], iter_expr, f, env)
                return
        mp = _as_mapping(it)
        if mp is not None and isinstance(target, ast.Name):
            env[target.id] = mp[1]
            return
        if base == ("sym", "PATHS_LIST") and isinstance(target, ast.Name):
            env[target.id] = ("sym", "PATH")
            return
        if base == ("sym", "PATHS_MAP") and isinstance(target, ast.Name):
            env[target.id] = ("sym", "PATH")
            return
        if isinstance(target, ast.Name):
            env[target.id] = ("elem", it)
        elif isinstance(target, (ast.Tuple, ast.List)):
            for i, e in enumerate(target.elts):
                self._bind(e, ("index", ("elem", it), i), iter_expr, f, env)

    # ------------------------------------------------------------------ expressions
    def _expr(self, e: ast.AST, f: Func, env: Dict[str, Term], conds, out: List[Effect], handlers: List[str], depth: int) -> Term:
        t = self._expr0(e, f, env, conds, out, handlers, depth)
        tab = getattr(self, "expr_terms", None)
        if tab is not None:
            tab[id(e)] = t
        return t

    def _expr0(self, e: ast.AST, f: Func, env: Dict[str, Term], conds, out: List[Effect], handlers: List[str], depth: int) -> Term:
        if isinstance(e, ast.Constant):
            return ("lit", e.value) if isinstance(e.value, str) else ("const", e.value)
        if isinstance(e, ast.Name):
            if e.id in env:
                return env[e.id]
            cv = self.prog.const_of(f, e.id)
            if isinstance(cv, str):
                return ("lit", cv)  # a module-level constant for a repeated literal ('blobs', '.meta', 'wb')
            if cv is not NOT_CONST:
                return ("const", cv)
            return ("sym", e.id)
        if isinstance(e, ast.Attribute):
            if isinstance(e.value, ast.Name) and e.value.id == "self":
                return ("attr", e.attr)
            d = self.prog.dotted(f, e)
            if d == "os.sep":
                return ("lit", "/")
            base = self._expr(e.value, f, env, conds, out, handlers, depth)
            if e.attr == "hex" and isinstance(base, tuple) and base[0] == "unique":
                return base
            if e.attr == "parts" and _is_path(base):
                return ("segs", "exact", "parts")
            if e.attr in ("name",) and isinstance(base, tuple) and base[0] == "unique":
                return base
            return ("getattr", base, e.attr)
        if isinstance(e, ast.JoinedStr):
            parts: List[Term] = []
            for v in e.values:
                if isinstance(v, ast.Constant):
                    parts.append(("lit", str(v.value)))
                elif isinstance(v, ast.FormattedValue):
                    parts.append(self._expr(v.value, f, env, conds, out, handlers, depth))
            return flatten(("cat",) + tuple(parts))
        if isinstance(e, ast.BinOp):
            l = self._expr(e.left, f, env, conds, out, handlers, depth)
            r = self._expr(e.right, f, env, conds, out, handlers, depth)
            if isinstance(e.op, ast.Add):
                return flatten(("cat", l, r))
            if isinstance(e.op, ast.Div):
                return flatten(("join", l, r))
            if isinstance(e.op, ast.Mod) and isinstance(l, tuple) and l[0] == "lit":
                return ("cat", l, r)
            return ("call", "binop", l, r)
        if isinstance(e, ast.Starred):
            return ("star", self._expr(e.value, f, env, conds, out, handlers, depth))
        if isinstance(e, ast.Subscript):
            base = self._expr(e.value, f, env, conds, out, handlers, depth)
            if isinstance(e.slice, ast.Constant):
                return _index(base, e.slice.value)
            if isinstance(e.slice, ast.UnaryOp) and isinstance(e.slice.op, ast.USub) and isinstance(e.slice.operand, ast.Constant):
                return _index(base, -e.slice.operand.value)
            if isinstance(e.slice, ast.Slice):
                if isinstance(base, tuple) and base[0] == "segs":
                    return ("segs", "lossy", f"slice {unparse(e.slice)} drops segments")
                return ("slice", base, unparse(e.slice))
            return ("index", base, self._expr(e.slice, f, env, conds, out, handlers, depth))
        if isinstance(e, (ast.ListComp, ast.GeneratorExp)):
            return self._comp(e, f, env, conds, out, handlers, depth)
        if isinstance(e, ast.IfExp):
            self._expr(e.test, f, env, conds, out, handlers, depth)
            a = self._expr(e.body, f, env, conds + [(e.test, True)], out, handlers, depth)
            b = self._expr(e.orelse, f, env, conds + [(e.test, False)], out, handlers, depth)
            return a if a == b else ("phi", a, b)
        if isinstance(e, ast.BoolOp):
            ts = [self._expr(v, f, env, conds, out, handlers, depth) for v in e.values]
            if isinstance(e.op, ast.Or) and len(ts) == 2 and ts[1] == ("const", None) and isinstance(ts[0], tuple) and ts[0][:1] in (("segs",), ("join",)):
                return ("phi", ts[0], ts[1])  # `xs or None`: the value itself, or None when it is empty
            return ("bool",) + tuple(ts)
        if isinstance(e, ast.UnaryOp):
            return ("not", self._expr(e.operand, f, env, conds, out, handlers, depth))
        if isinstance(e, ast.Compare):
            ts = [self._expr(e.left, f, env, conds, out, handlers, depth)] + [
                self._expr(c, f, env, conds, out, handlers, depth) for c in e.comparators]
            return ("cmp",) + tuple(ts)
        if isinstance(e, (ast.Tuple, ast.List)):
            return ("tuple",) + tuple(self._expr(x, f, env, conds, out, handlers, depth) for x in e.elts)
        if isinstance(e, ast.Dict):
            for v in list(e.keys) + list(e.values):
                if v is not None:
                    self._expr(v, f, env, conds, out, handlers, depth)
            return ("dict",)
        if isinstance(e, ast.Call):
            return self._call(e, f, env, conds, out, handlers, depth)
        return ("unknown", type(e).__name__)

    def _comp(self, e: Any, f: Func, env: Dict[str, Term], conds, out, handlers, depth) -> Term:
        g = e.generators[0]
        it = self._expr(g.iter, f, env, conds, out, handlers, depth)
        e2 = dict(env)
        if isinstance(it, tuple) and it[0] == "segs":
            # segment domain: element is one segment
            if isinstance(g.target, ast.Name):
                e2[g.target.id] = ("seg",)
            elt = self._expr(e.elt, f, e2, conds, out, handlers, depth)
            qual, why = it[1], (it[2] if len(it) > 2 else "")
            if elt != ("seg",):
                if isinstance(elt, tuple) and elt[0] == "lossy":
                    qual, why = "lossy", elt[1]
                else:
                    qual, why = "lossy", f"segment mapped through {show(elt)}"
            for c in g.ifs:
                if not _drops_only_empty(c, g.target):
                    qual, why = "lossy", f"filter `{unparse(c)}` drops non-empty segments"
            return ("segs", qual, why)
        if isinstance(it, tuple) and it[0] == "call" and it[1] == "os.path.split" and len(it) > 2 and _is_path(it[2]):
            # (head, tail): the head still holds several segments
            if isinstance(g.target, ast.Name):
                e2[g.target.id] = ("multiseg",)
            elt = self._expr(e.elt, f, e2, conds, out, handlers, depth)
            if elt == ("multiseg",):
                return ("segs", "lossy", "os.path.split keeps head and tail only as two components")
            return ("segs", "lossy", f"os.path.split(path) then {show(elt)}")
        self._bind_loop(g.target, it, g.iter, f, e2)
        for c in g.ifs:
            self._expr(c, f, e2, conds, out, handlers, depth)
        elt = self._expr(e.elt, f, e2, conds, out, handlers, depth)
        return ("comp", elt, it)

    def _call(self, e: ast.Call, f: Func, env: Dict[str, Term], conds, out: List[Effect], handlers: List[str], depth: int) -> Term:
        prog = self.prog
        fn = e.func
        d = prog.dotted(f, fn)
        args = [self._expr(a, f, env, conds, out, handlers, depth) for a in e.args]
        kwargs = {k.arg: self._expr(k.value, f, env, conds, out, handlers, depth) for k in e.keywords if k.arg}

        def eff(kind: str, term: Term, src: Optional[Term] = None, **extra: Any) -> None:
            out.append(Effect(kind, flatten(term), e, f, conds, flatten(src) if src is not None else None, extra, handlers=list(handlers)))

        if d is not None:
            if d in WRAPPERS and args:
                return args[0]
            if d in ("list", "tuple") and len(args) == 1 and isinstance(args[0], tuple) and args[0] and args[0][0] == "segs":
                return args[0]  # the same segments, in the same order
            if d == "filter" and len(args) == 2 and isinstance(args[1], tuple) and args[1] and args[1][0] == "segs" and args[0] in (("const", None), ("name", "bool"), ("name", "len")):
                return args[1]  # drops the empty segments only
            if d in ("os.path.join",):
                jt = flatten(("join",) + tuple(args))
                if hasattr(self, "join_sites"):
                    self.join_sites.append((f, e, jt))
                return jt
            if d in ("os.path.abspath",) and args:
                return ("abs", args[0])
            if d in ("os.path.normpath",) and args:
                return ("norm", args[0])
            if d in ("os.path.relpath",) and args:
                return ("relpath",) + tuple(args)
            if d in ("os.path.commonprefix", "os.path.commonpath") and args:
                return (d.split(".")[-1],) + tuple(args)
            if d in ("os.path.realpath",) and args:
                eff("PROBE", args[0], how="realpath")
                return ("real", args[0])
            if d == "os.path.dirname" and args:
                return ("dirname", args[0])
            if d == "os.path.basename" and args:
                return ("index", ("call", "os.path.split", args[0]), 1)
            if d == "os.path.split" and args:
                return ("call", "os.path.split", args[0])
            if d in PROBES and args:
                eff("PROBE", args[0], how=d)
                return ("probe", args[0])
            if d in ("os.makedirs", "os.mkdir") and args:
                ok = kwargs.get("exist_ok")
                if ok is None and len(args) > 2:
                    ok = args[2]
                eff("MKDIR", args[0], exist_ok=(ok == ("const", True)), how=d)
                return ("none",)
            if d in ("os.remove", "os.unlink", "os.rmdir") and args:
                eff("REMOVE", args[0], how=d)
                return ("none",)
            if d in ("shutil.rmtree",) and args:
                eff("RMTREE", args[0], how=d)
                return ("none",)
            if d in ("os.symlink", "os.link") and len(args) >= 2:
                eff("LINK", args[1], src=args[0], how=d)
                return ("none",)
            if d in ("os.replace", "os.rename", "shutil.move") and len(args) >= 2:
                eff("RENAME_INTO", args[1], src=args[0], how=d)
                return ("none",)
            if d in ("shutil.copy", "shutil.copyfile", "shutil.copy2") and len(args) >= 2:
                eff("WRITE_INPLACE", args[1], src=args[0], how=d)
                return ("none",)
            if d == "os.open" and args:
                flags = unparse(e.args[1], 200) if len(e.args) > 1 else ""
                if "O_EXCL" in flags:
                    # exclusive creation of a name: a lock-file idiom when the name is not process-unique
                    eff("CREATE_EXCL", args[0], how=f"os.open({flags})")
                elif any(x in flags for x in ("O_CREAT", "O_WRONLY", "O_RDWR", "O_TRUNC", "O_APPEND")):
                    eff("WRITE_INPLACE", args[0], how=f"os.open({flags})", mode="w")
                else:
                    eff("READ", args[0], how=f"os.open({flags})")
                return ("file", args[0])
            if d == "open" and args:
                mode = args[1] if len(args) > 1 else kwargs.get("mode", ("lit", "r"))
                m = mode[1] if isinstance(mode, tuple) and mode[0] == "lit" else "?"
                if "x" in m:
                    eff("CREATE_EXCL", args[0], how=f"open(mode={m!r})", mode=m)
                elif any(c in m for c in "wax+"):
                    eff("WRITE_INPLACE", args[0], how=f"open(mode={m!r})", mode=m)
                else:
                    eff("READ", args[0], how=f"open(mode={m!r})")
                return ("file", args[0])
            if d == "os.getpid":
                return ("pid",)
            if d in ("uuid.uuid4", "uuid.uuid1", "secrets.token_hex", "tempfile.mktemp"):
                return ("unique", d)
            if d in ("tempfile.mkstemp", "tempfile.NamedTemporaryFile", "tempfile.mkdtemp", "tempfile.TemporaryDirectory"):
                dir_ = kwargs.get("dir")
                return ("unique", d, dir_) if dir_ is not None else ("unique", d)
            if d in ("time.time", "time.time_ns", "time.monotonic"):
                return ("time",)
            if d in prog.funcs:
                callee = prog.funcs[d]
                if depth < 6 and callee.cls is None:
                    return self._inline(callee, args, kwargs, conds, out, handlers, depth, e, f)
            if d in prog.classes:
                return ("obj", d) + tuple(args)
        if isinstance(fn, ast.Attribute):
            attr = fn.attr
            recv = self._expr(fn.value, f, env, conds, out, handlers, depth) if not (
                isinstance(fn.value, ast.Name) and fn.value.id == "self") else ("self",)
            # helper methods of the same class
            if recv == ("self",):
                m = prog.find_method(self.cls.qname, attr)
                if m is not None and depth < 6:
                    return self._inline(m, args, kwargs, conds, out, handlers, depth, e, f)
            # methods of a project object held in an attribute or a local (`self._files = _Files(dbutils)` ...
            # `self._files.put(p, x)`): summarised through the method's own body
            ob = recv
            if isinstance(ob, tuple) and len(ob) == 2 and ob[0] == "attr":
                ob = self.attr_defs.get(ob[1], ob)
            if isinstance(ob, tuple) and len(ob) >= 2 and ob[0] == "obj" and ob[1] in prog.classes and depth < 6:
                m = prog.find_method(ob[1], attr)
                if m is not None and m.cls is not None and m.cls.qname != self.cls.qname:
                    subs = self.__dict__.setdefault("_subs", {})
                    sub = subs.get(m.cls.qname)
                    if sub is None:
                        sub = subs[m.cls.qname] = StoreModel(prog, m.cls, self.types)
                    r = sub._inline(m, args, kwargs, conds, out, handlers, depth, e, f)
                    return expand_attrs(r, sub)
            if attr == "joinpath":
                jt = flatten(("join", recv) + tuple(args))
                if hasattr(self, "join_sites"):
                    self.join_sites.append((f, e, jt))
                return jt
            if attr in ("items", "keys", "values"):
                return ("call", attr, recv)
            if attr == "split" and _is_path(recv) and args == [("lit", "/")]:
                return ("segs", "exact", "")
            if attr in ("strip", "lstrip", "rstrip") and _is_path(recv) and args in ([("lit", "/")],):
                return recv  # only empty boundary segments removed
            if attr in ("replace", "lower", "upper", "casefold", "title", "strip", "lstrip", "rstrip", "encode", "translate"):
                if recv == ("seg",):
                    if attr == "replace" and args and args[0] == ("lit", "/"):
                        return ("seg",)  # a single segment holds no separator
                    return ("lossy", f".{attr}() applied to each segment")
                if recv == ("multiseg",) or _is_path(recv):
                    return ("lossy", f".{attr}({', '.join(show(a) for a in args)}) applied to a value that holds several segments")
                return ("call", attr, recv) + tuple(args)
            if attr == "hexdigest" or attr == "digest":
                return ("lossy", "hashed")
            if attr == "serialize_into" and len(args) >= 2:
                self._codec_effects("serialize_into", args[1], e, f, conds, out, handlers)
                return ("none",)
            if attr == "deserialize_from" and args:
                self._codec_effects("deserialize_from", args[0], e, f, conds, out, handlers)
                return ("value",)
            # dbutils.fs.*
            chain = unparse(fn, 200)
            if ".fs." in chain or chain.startswith("fs."):
                if attr == "put" and args:
                    eff("PUT", args[0], how=chain)
                    return ("none",)
                if attr == "head" and args:
                    eff("HEAD", args[0], how=chain)
                    return ("content", args[0])
                if attr == "cp" and len(args) >= 2:
                    eff("CP", args[1], src=args[0], how=chain)
                    return ("none",)
                if attr in ("rm",) and args:
                    eff("RM", args[0], how=chain)
                    return ("none",)
                if attr in ("mkdirs", "ls"):
                    eff("PROBE" if attr == "ls" else "MKDIR", args[0] if args else ("unknown",), how=chain, exist_ok=True)
                    return ("none",)
            if attr in ("parquet", "to_parquet", "save", "to_csv", "write_bytes", "write_text") and args:
                tgt = args[0]
                if attr in ("write_bytes", "write_text"):
                    tgt = recv
                if "write" in chain or attr.startswith("to_") or attr.startswith("write_"):
                    eff("WRITE_INPLACE", tgt, how=chain)
                    return ("none",)
            if attr in ("write",) and isinstance(recv, tuple) and recv[0] == "file":
                return ("none",)
            if attr in ("get",) and args:
                return ("index", recv, args[0])
            if attr in ("exists", "is_dir", "is_file", "is_symlink"):
                eff("PROBE", recv, how=attr)
                return ("probe", recv)
            if attr in ("mkdir",):
                ok = kwargs.get("exist_ok")
                eff("MKDIR", recv, exist_ok=(ok == ("const", True)), how="Path.mkdir")
                return ("none",)
            if attr in ("unlink",):
                eff("REMOVE", recv, how="Path.unlink")
                return ("none",)
            if attr in ("symlink_to",) and args:
                eff("LINK", recv, src=args[0], how="Path.symlink_to")
                return ("none",)
            if attr in ("replace", "rename") and args:
                eff("RENAME_INTO", args[0], src=recv, how="Path." + attr)
                return ("none",)
            return ("call", attr, recv) + tuple(args)
        return ("call", d or unparse(fn, 40)) + tuple(args)

    def _inline(self, callee: Func, args: List[Term], kwargs: Dict[str, Term], conds, out: List[Effect], handlers: List[str],
                depth: int, site: ast.Call, caller: Optional[Func] = None) -> Term:
        env: Dict[str, Term] = {}
        ps = callee.positional_params()
        for i, p in enumerate(ps):
            if i < len(args):
                env[p] = args[i]
            elif p in kwargs:
                env[p] = kwargs[p]
            else:
                env[p] = ("sym", p)
        for k, v in kwargs.items():
            env[k] = v
        sub: List[Effect] = []
        r = self._walk(callee.node.body, callee, env, [], sub, handlers, depth + 1)
        for s in sub:
            s.conds = list(conds) + s.conds
            s.via = [f"{callee.qname} (inlined at line {site.lineno})"] + s.via
            s.root_node = site
            s.root_func = caller if caller is not None else s.root_func
            out.append(s)
        return r if r is not None else ("none",)

    def _codec_effects(self, method: str, loc: Term, e: ast.Call, f: Func, conds, out: List[Effect], handlers: List[str]) -> None:
        impls: List[Func] = []
        for base in ("dds.structures.CodecProtocol", "dds.structures.FileCodecProtocol"):
            for m in self.prog.implementations(base, method):
                if m not in impls and m.cls is not None and m.cls.qname not in ("dds.structures.CodecProtocol", "dds.structures.FileCodecProtocol"):
                    impls.append(m)
        found = False
        for m in impls:
            ps = m.positional_params()
            env: Dict[str, Term] = {}
            locp = ps[-1] if ps else None
            for p in ps:
                env[p] = ("sym", "BLOB")
            if locp:
                env[locp] = loc
            sub: List[Effect] = []
            sm = StoreModel.__new__(StoreModel)
            sm.prog, sm.cls, sm.types, sm.attr_defs, sm.attr_def_exprs, sm.ctor_params = self.prog, m.cls, self.types, {}, {}, []
            sm._walk(m.node.body, m, env, [], sub, handlers, 1)
            for s in sub:
                if s.kind in ("WRITE_INPLACE", "READ"):
                    found = True
                    s.conds = list(conds) + s.conds
                    s.via = [f"{m.qname}"] + s.via
                    s.node = e
                    s.func = f
                    s.extra["codec"] = m.qname
                    out.append(s)
        if not found:
            out.append(Effect("WRITE_INPLACE" if method == "serialize_into" else "READ", flatten(loc), e, f, conds,
                              extra={"how": f"codec.{method} (no implementation summarised)"}, handlers=list(handlers)))


def _as_mapping(t: Any) -> Optional[Term]:
    """("mapping", k, v) behind a term; a phi with the still-empty mapping is the mapping (it has no items)"""
    if isinstance(t, tuple) and t:
        if t[0] == "mapping":
            return t
        if t[0] == "phi":
            alts = [x for x in t[1:] if not (isinstance(x, tuple) and x and (x[0] == "dict" or (x[0] == "call" and len(x) == 2)))]
            if len(alts) == 1:
                return _as_mapping(alts[0])
    return None


def _terminates(stmts: List[ast.stmt]) -> bool:
    if not stmts:
        return False
    last = stmts[-1]
    if isinstance(last, (ast.Return, ast.Raise, ast.Continue, ast.Break, InlineJump)):
        return True
    if isinstance(last, ast.If):
        return _terminates(last.body) and _terminates(last.orelse)
    return False


def _ends_with_jump(stmts: List[ast.stmt]) -> bool:
    if not stmts:
        return False
    last = stmts[-1]
    if isinstance(last, InlineJump):
        return True
    if isinstance(last, ast.If):
        return _ends_with_jump(last.body) and _ends_with_jump(last.orelse)
    return False


def _merge_envs(envs: List[Dict[str, Any]]) -> Dict[str, Any]:
    out: Dict[str, Any] = {}
    for k in {k for e in envs for k in e}:
        vals: List[Any] = []
        for e in envs:
            if k in e and e[k] not in vals:
                vals.append(e[k])
        out[k] = vals[0] if len(vals) == 1 else ("phi",) + tuple(vals)
    return out


def _is_path(t: Any) -> bool:
    return t == ("sym", "PATH")


def _strip_none(t: Any) -> Any:
    if isinstance(t, tuple) and t and t[0] == "phi":
        arms = [_strip_none(x) for x in t[1:] if x != ("const", None)]
        if len(arms) == 1:
            return arms[0]
        if arms:
            return ("phi",) + tuple(arms)
    return t


def _skips_only_empty(test: ast.AST, polarity: bool, target: ast.AST) -> bool:
    """the guard of a `continue` is true only for empty (or root) segments: `if not s`, `if s == ""`, `if len(s) == 0`"""
    if not polarity:
        return _drops_only_empty(test, target)  # `if s: ... else: continue`
    if isinstance(test, ast.UnaryOp) and isinstance(test.op, ast.Not):
        return _drops_only_empty(test.operand, target)
    if isinstance(test, ast.Compare) and len(test.ops) == 1 and isinstance(test.ops[0], ast.Eq):
        l, r = test.left, test.comparators[0]
        if isinstance(target, ast.Name) and isinstance(l, ast.Name) and l.id == target.id and isinstance(r, ast.Constant) and r.value in ("", "/"):
            return True
        if isinstance(l, ast.Call) and unparse(l.func) == "len" and isinstance(r, ast.Constant) and r.value == 0:
            return True
    if isinstance(test, ast.BoolOp) and isinstance(test.op, ast.Or):
        return all(_skips_only_empty(v, True, target) for v in test.values)
    return False


def _drops_only_empty(cond: ast.AST, target: ast.AST) -> bool:
    """`if s` / `if s != ""` / `if len(s) > 0` / `if s and s != "/"` style filters: only empty (or root) segments dropped."""
    if isinstance(target, ast.Name):
        nm = target.id
        if isinstance(cond, ast.Name) and cond.id == nm:
            return True
        if isinstance(cond, ast.Compare) and isinstance(cond.left, ast.Name) and cond.left.id == nm and len(cond.ops) == 1:
            c = cond.comparators[0]
            if isinstance(cond.ops[0], ast.NotEq) and isinstance(c, ast.Constant) and c.value in ("", "/"):
                return True
        if isinstance(cond, ast.BoolOp) and isinstance(cond.op, ast.And):
            return all(_drops_only_empty(v, target) for v in cond.values)
        if isinstance(cond, ast.Call) and unparse(cond.func) == "len" and cond.args and isinstance(cond.args[0], ast.Name):
            return True
        if isinstance(cond, ast.Compare) and isinstance(cond.left, ast.Call) and unparse(cond.left.func) == "len":
            return True
    return False


def expand_attrs(t: Any, model: StoreModel) -> Any:
    """Replace self.attr by its constructor definition."""
    if isinstance(t, tuple) and t and t[0] == "attr" and t[1] in model.attr_defs:
        return expand_attrs(model.attr_defs[t[1]], model)
    if isinstance(t, tuple):
        return (t[0],) + tuple(expand_attrs(x, model) for x in t[1:])
    return t


def unique_sources(t: Any) -> Set[str]:
    out: Set[str] = set()

    def rec(x: Any) -> None:
        if isinstance(x, tuple) and x:
            if x[0] == "unique":
                out.add(str(x[1]))
            elif x[0] == "pid":
                out.add("pid")
            elif x[0] == "time":
                out.add("time")
            for y in x[1:]:
                rec(y)

    rec(t)
    return out


def strip_unique(t: Any) -> Any:
    """The term with the unique / literal suffix of a temporary name removed: the 'base' a temp name derives from."""
    t = flatten(t)
    if isinstance(t, tuple) and t and t[0] == "cat":
        return t[1]
    if isinstance(t, tuple) and t and t[0] == "join":
        last = strip_unique(t[-1])
        return flatten(t[:-1] + (last,))
    return t
