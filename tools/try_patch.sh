#!/bin/sh
# try_patch.sh PATCH PROP... : apply PATCH to /repo, run the quick checks, undo
P="$1"; shift
cd /repo || exit 2
git apply --check "$P" || { echo "PATCH DOES NOT APPLY"; exit 3; }
git apply "$P"
for prop in "$@"; do
  /verif/check "$prop" --no-evidence > /tmp/try_patch_$prop.out 2>&1; rc=$?
  echo "== $prop exit=$rc"; grep -E "VIOLATION|ANALYSIS-ERROR|rule " /tmp/try_patch_$prop.out | head -8
done
git checkout -- . 
git status --short | head -3
