#!/bin/sh
# try_patch.sh PATCH PROP... : apply PATCH to a scratch worktree of /repo HEAD (never to /repo itself), run the checks with --repo, undo
P="$1"; shift
W=/tmp/verif_try
HEAD=$(git -C /repo rev-parse HEAD)
if [ ! -d $W ] || [ "$(git -C $W rev-parse HEAD 2>/dev/null)" != "$HEAD" ]; then
  git -C /repo worktree remove --force $W 2>/dev/null
  git -C /repo worktree add -q --detach $W $HEAD || exit 2
fi
cd $W || exit 2
git checkout -q -- . ; git clean -fdq; git apply "$P" 2>/dev/null || { echo "PATCH DOES NOT APPLY"; exit 3; }
for p in "$@"; do
  /verif/check $p --repo $W --no-evidence > /tmp/tp_$p.out 2>&1; rc=$?
  echo "== $p exit=$rc"; grep -A3 "^VIOLATION\|^ANALYSIS-ERROR" /tmp/tp_$p.out | grep -v "^--" | head -12
done
git checkout -q -- .; git clean -fdq
