#!/bin/sh
# runall.sh [REPO] : all 18 checks in parallel against REPO (default /repo), without evidence, summary of exit codes (outputs in /tmp/ra_<ID>.out)
R=${1:-/repo}
ls /verif/ddsverif/rules | grep -o "^c[0-9][0-9]" | tr c C | sort -u | xargs -P 16 -I{} sh -c "/verif/check {} --repo $R --no-evidence > /tmp/ra_{}.out 2>&1; echo {} \$?" | sort | tr '\n' ' '; echo
