#!/bin/sh
# validate_twins.sh OUT DIR... : suite + fix demos with each twin applied (parallel, scratch worktrees)
OUT="$1"; shift
N=${JOBS:-12}
HEAD=$(git -C /repo rev-parse HEAD)
rm -f /tmp/vt_out_*.txt
for d in "$@"; do echo "$d"; done > /tmp/vt_all.txt
for j in $(seq 1 $N); do
  W=/tmp/vt_wt_$j
  git -C /repo worktree remove --force $W 2>/dev/null
  git -C /repo worktree add -q --detach $W $HEAD || exit 2
  awk -v n=$N -v j=$j 'NR % n == j % n' /tmp/vt_all.txt > /tmp/vt_list_$j.txt
  ( while read d; do
      name=$(basename $d)
      cd $W; git checkout -q -- .; git clean -fdq
      if ! git apply $d/patch.diff 2>/dev/null; then echo "$name: NOAPPLY"; continue; fi
      T=$(PYTHONPATH=$W /venv/bin/python -m pytest -q -p no:cacheprovider --timeout=900 dds_tests 2>&1 | tail -1)
      case "$T" in *"1 failed, 59 passed"*) TOK=ok;; *) TOK="TESTS($T)";; esac
      bad=""
      for f in /verif/findings/F2[4-9]*.py /verif/findings/F3*.py; do
        mkdir -p /tmp/vt_cwd_$j; (cd /tmp/vt_cwd_$j && PYTHONPATH=$W timeout 300 /venv/bin/python $f >/dev/null 2>&1) || bad="$bad $(basename $f)"
      done
      echo "$name: $TOK demos:[${bad}]"
      git checkout -q -- .; git clean -fdq
    done < /tmp/vt_list_$j.txt > /tmp/vt_out_$j.txt 2>&1 ) &
done
wait
cat /tmp/vt_out_*.txt | sort > "$OUT"
for j in $(seq 1 $N); do git -C /repo worktree remove --force /tmp/vt_wt_$j 2>/dev/null; done
echo "written $OUT"
