#!/bin/sh
# reconfirm_par.sh OUTFILE DIR... : re-validate seeded changes against /repo HEAD, N jobs in parallel, each in its own scratch worktree:
#   patch applies / demo exits 0 on the clean tree / suite still 59 pass with the patch / demo exits non-zero with the patch
OUT="$1"; shift
N=${JOBS:-10}
HEAD=$(git -C /repo rev-parse HEAD)
rm -f /tmp/rc_out_*.txt /tmp/rc_list_*.txt
for d in "$@"; do echo "$d"; done > /tmp/rc_list_all.txt
for j in $(seq 1 $N); do
  W=/tmp/rc_wt_$j
  git -C /repo worktree remove --force $W 2>/dev/null
  git -C /repo worktree add -q --detach $W $HEAD || exit 2
  awk -v n=$N -v j=$j 'NR % n == j % n' /tmp/rc_list_all.txt > /tmp/rc_list_$j.txt
  ( while read d; do
      name=$(basename $d)
      DEMO=$(ls $d | grep -E '^demo.*\.py$' | head -1)
      cd $W; git checkout -q -- .; git clean -fdq
      [ -n "$DEMO" ] && cp $d/$DEMO $W/$DEMO
      for extra in $(ls $d | grep -vE '^(patch.*\.diff|README.md|meta.json|demo.*\.py)$'); do cp -r $d/$extra $W/ 2>/dev/null; done
      if ! git apply --check $d/patch.diff 2>/dev/null; then echo "$name: NOAPPLY"; continue; fi
      PYTHONPATH=$W timeout 600 /venv/bin/python $DEMO > /tmp/rc_${j}_clean.out 2>&1; RC_CLEAN=$?
      git apply $d/patch.diff 2>/dev/null
      T=$(PYTHONPATH=$W /venv/bin/python -m pytest -q -p no:cacheprovider --timeout=900 dds_tests 2>&1 | tail -1)
      PYTHONPATH=$W timeout 600 /venv/bin/python $DEMO > /tmp/rc_${j}_mut.out 2>&1; RC_MUT=$?
      case "$T" in *"1 failed, 59 passed"*) TOK=ok;; *) TOK="TESTS($T)";; esac
      if [ $RC_CLEAN -eq 0 ] && [ $RC_MUT -ne 0 ] && [ "$TOK" = ok ]; then echo "$name: CONFIRMED"; else echo "$name: FAIL clean=$RC_CLEAN mut=$RC_MUT tests=$TOK"; fi
      git checkout -q -- .; git clean -fdq
    done < /tmp/rc_list_$j.txt > /tmp/rc_out_$j.txt 2>&1 ) &
done
wait
cat /tmp/rc_out_*.txt | sort > "$OUT"
for j in $(seq 1 $N); do git -C /repo worktree remove --force /tmp/rc_wt_$j 2>/dev/null; done
echo "written $OUT"
