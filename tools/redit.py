#!/venv/bin/python
"""redit.py FILE <<< JSON[[old,new],...]  - exact-once replacements preserving the file's line endings"""
import sys, json
path = sys.argv[1]
edits = json.load(sys.stdin)
raw = open(path, newline="").read()
crlf = "\r\n" in raw
text = raw.replace("\r\n", "\n")
for old, new in edits:
    if text.count(old) != 1:
        sys.exit(f"edit does not match exactly once ({text.count(old)}): {old[:60]!r}")
    text = text.replace(old, new)
if crlf:
    text = text.replace("\n", "\r\n")
open(path, "w", newline="").write(text)
print("edited", path, "crlf" if crlf else "lf")
