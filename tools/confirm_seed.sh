#!/bin/sh
# confirm_seed.sh NAME PROP "needs..."  : confirm /tmp/seed_out/NAME in a scratch worktree of /repo HEAD and keep it under /verif/seeded/NAME
NAME="$1"; PROP="$2"; NEEDS="$3"
SRC=${SEED_SRC:-/tmp/seed_out}/$NAME
WT=/tmp/confirm_$NAME
DEMO=$(ls $SRC | grep -E '^demo.*\.py$' | head -1)
[ -f "$SRC/patch.diff" ] && [ -n "$DEMO" ] || { echo "missing patch/demo in $SRC"; exit 2; }
git -C /repo worktree add -q --detach $WT HEAD || exit 2
cd $WT
cp $SRC/$DEMO $WT/$DEMO
PYTHONPATH=$WT /venv/bin/python $DEMO >/tmp/confirm_clean.out 2>&1; RC_CLEAN=$?
git apply --check $SRC/patch.diff 2>/tmp/confirm_apply.err; AP=$?
if [ $AP -ne 0 ]; then echo "PATCH DOES NOT APPLY to HEAD"; cat /tmp/confirm_apply.err | head -5; cd /; git -C /repo worktree remove --force $WT; exit 3; fi
git apply $SRC/patch.diff
TESTS=$(PYTHONPATH=$WT /venv/bin/python -m pytest -q -p no:cacheprovider --timeout=900 dds_tests 2>&1 | tail -1)
PYTHONPATH=$WT /venv/bin/python $DEMO >/tmp/confirm_mut.out 2>&1; RC_MUT=$?
cd /
git -C /repo worktree remove --force $WT
echo "$NAME: demo clean rc=$RC_CLEAN, mutated rc=$RC_MUT, tests with patch: $TESTS"
case "$TESTS" in *"1 failed, 59 passed"*) TOK=1;; *) TOK=0;; esac
if [ $RC_CLEAN -eq 0 ] && [ $RC_MUT -ne 0 ] && [ $TOK -eq 1 ]; then
  mkdir -p /verif/seeded/$NAME
  cp $SRC/patch.diff $SRC/$DEMO /verif/seeded/$NAME/
  [ -f $SRC/README.md ] && cp $SRC/README.md /verif/seeded/$NAME/README.md
  HEADSHA=$(git -C /repo rev-parse --short HEAD)
  cat > /verif/seeded/$NAME/meta.json <<EOM
{
 "property": "$PROP",
 "source": "independent sub-agent given only the property text and a scratch worktree",
 "needs_to_manifest": "$NEEDS",
 "confirmed_against_repo_head": "$HEADSHA",
 "what_i_ran": [
  "git worktree add --detach /tmp/confirm_$NAME HEAD",
  "PYTHONPATH=<wt> /venv/bin/python $DEMO   -> exit $RC_CLEAN (clean tree)",
  "git apply patch.diff; pytest dds_tests -> $TESTS",
  "PYTHONPATH=<wt> /venv/bin/python $DEMO   -> exit $RC_MUT (with the change)",
  "git worktree remove --force"
 ]
}
EOM
  echo "KEPT /verif/seeded/$NAME"
else
  echo "NOT CONFIRMED"
fi
