#!/bin/sh
# try_on_copy.sh PATCH PROP... : apply PATCH to the scratch copy /tmp/verif_head (a worktree of /repo HEAD), run the checks with --repo, undo
P="$1"; shift
cd /tmp/verif_head || exit 2
git checkout -q -- . ; git apply "$P" || { echo "PATCH DOES NOT APPLY"; exit 3; }
for p in "$@"; do
  /verif/check $p --repo /tmp/verif_head --no-evidence > /tmp/toc_$p.out 2>&1; rc=$?
  echo "== $p exit=$rc"; grep -A3 "^VIOLATION\|^ANALYSIS-ERROR" /tmp/toc_$p.out | head -12
done
git checkout -q -- .
