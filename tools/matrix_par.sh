#!/bin/sh
# matrix_par.sh OUTFILE DIR... : cross matrix of every claimed quick check over the patches, N jobs in parallel,
# each on its own scratch worktree of /repo HEAD (created under /tmp, removed at the end). /repo is not touched.
# Env: JOBS (8), PROPS (all claimed), VERIF (/verif; use an rsync snapshot while rules are being edited), MP (prefix of the scratch names, to run two matrices at once).
OUT="$1"; shift
N=${JOBS:-8}
HEAD=$(git -C /repo rev-parse HEAD)
i=0
rm -f /tmp/${MP:-mp}_out_*.txt /tmp/${MP:-mp}_list_*.txt
for d in "$@"; do echo "$d"; done > /tmp/${MP:-mp}_all.txt
for j in $(seq 1 $N); do
  W=/tmp/${MP:-mp}_wt_$j
  git -C /repo worktree remove --force $W 2>/dev/null
  git -C /repo worktree add -q --detach $W $HEAD || exit 2
  awk -v n=$N -v j=$j 'NR % n == j % n' /tmp/${MP:-mp}_all.txt > /tmp/${MP:-mp}_list_$j.txt
  ( PROPS="${PROPS:-C01 C02 C03 C04 C05 C06 C07 C08 C09 C10 C11 C12 C13 C14 C15 C16 C17 C19}"
    while read d; do
      name=$(basename $d)
      cd $W; git checkout -q -- .; git clean -fdq
      if ! git apply --check $d/patch.diff 2>/dev/null; then echo "$name: PATCH DOES NOT APPLY"; continue; fi
      git apply $d/patch.diff 2>/dev/null
      res=""
      for p in $PROPS; do
        ${VERIF:-/verif}/check $p --repo $W --no-evidence > /tmp/${MP:-mp}_${j}_$p.out 2>&1; rc=$?
        if [ $rc -eq 1 ]; then res="$res $p:VIOL($(grep -o 'rule C[0-9]*\.R[0-9]*' /tmp/${MP:-mp}_${j}_$p.out | sort -u | sed 's/rule //' | tr '\n' ',' ))"; fi
        if [ $rc -eq 2 ]; then res="$res $p:ERR"; fi
      done
      git checkout -q -- .; git clean -fdq
      echo "$name:$res"
    done < /tmp/${MP:-mp}_list_$j.txt > /tmp/${MP:-mp}_out_$j.txt 2>&1 ) &
done
wait
cat /tmp/${MP:-mp}_out_*.txt | sort > "$OUT"
for j in $(seq 1 $N); do git -C /repo worktree remove --force /tmp/${MP:-mp}_wt_$j 2>/dev/null; done
echo "matrix written to $OUT"
