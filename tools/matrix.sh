#!/bin/sh
# matrix.sh DIR... : for every seeded mutant dir (containing patch.diff) run ALL claimed quick checks; print which fire
PROPS="${PROPS:-C01 C02 C03 C04 C05 C06 C07 C08 C09 C10 C11 C12 C13 C14 C15 C16 C17 C19}"
for d in "$@"; do
  name=$(basename $d)
  cd /repo || exit 2
  if ! git apply --check $d/patch.diff 2>/dev/null; then echo "$name: PATCH DOES NOT APPLY"; continue; fi
  git apply $d/patch.diff
  res=""
  for p in $PROPS; do
    [ -f /verif/ddsverif/rules/$(echo $p | tr A-Z a-z).py ] || continue
    /verif/check $p --no-evidence > /tmp/matrix_$p.out 2>&1; rc=$?
    if [ $rc -eq 1 ]; then res="$res $p:VIOL($(grep -o 'rule C[0-9]*\.R[0-9]*' /tmp/matrix_$p.out | sort -u | sed 's/rule //' | tr '\n' ',' ))"; fi
    if [ $rc -eq 2 ]; then res="$res $p:ERR"; fi
  done
  git checkout -- .
  echo "$name:$res"
done
