#!/bin/sh
# matrix_copy.sh DIR... : like matrix.sh but on the scratch copy $COPY (default /tmp/verif_head, a worktree of /repo HEAD): /repo is not touched
COPY=${COPY:-/tmp/verif_head}
PROPS="${PROPS:-C01 C02 C03 C04 C05 C06 C07 C08 C09 C10 C11 C12 C13 C14 C15 C16 C17 C19}"
for d in "$@"; do
  name=$(basename $d)
  cd $COPY || exit 2
  git checkout -q -- .
  if ! git apply --check $d/patch.diff 2>/dev/null; then echo "$name: PATCH DOES NOT APPLY"; continue; fi
  git apply $d/patch.diff
  res=""
  for p in $PROPS; do
    /verif/check $p --repo $COPY --no-evidence > /tmp/mc_$p.out 2>&1; rc=$?
    if [ $rc -eq 1 ]; then res="$res $p:VIOL($(grep -o 'rule C[0-9]*\.R[0-9]*' /tmp/mc_$p.out | sort -u | sed 's/rule //' | tr '\n' ',' ))"; fi
    if [ $rc -eq 2 ]; then res="$res $p:ERR"; fi
  done
  git checkout -q -- .
  echo "$name:$res"
done
