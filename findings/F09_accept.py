"""F9 (C14): is_authorized_path iterated over the accepted-set size: {a} alone authorised nothing."""
from pathlib import PurePosixPath
from dds._eval_ctx import EvalMainContext
from dds.structures import CanonicalPath
cp = lambda s: CanonicalPath(PurePosixPath(s))
c1 = EvalMainContext(None, {"a"}, {}, {})
assert c1.is_authorized_path(cp("a/f")) and c1.is_authorized_path(cp("a/b/c/d/e/f"))
assert not c1.is_authorized_path(cp("ab/f")) and not c1.is_authorized_path(cp("b/a/f"))
c2 = EvalMainContext(None, {"a.b.c", "x"}, {}, {})
assert c2.is_authorized_path(cp("a/b/c/d/f")) and not c2.is_authorized_path(cp("a/b/f"))
print("ok")
