"""K11 (C11, known, not repaired): a cycle of length 1 through a reference by name is not rejected.

`def f(n): return list(map(f, range(n)))`: the function hands ITSELF to map.  Both visitors start with the function's own name in the set of names already
seen, so the reference is never analysed: dds.eval(f, 2) runs (f calls itself through map) where the same cycle written as a plain call - or a cycle of length 2
through references (g -> map(h), h -> map(g)) - is refused with CIRCULAR_CALL.  Exits 1 while the defect is present.
"""
import os
import sys
import tempfile

import dds
from dds.structures import DDSErrorCode, DDSException

RUNS = []


def f(n):
    RUNS.append(n)
    return list(map(f, range(n)))


def g(n):
    return list(map(h, range(n)))


def h(n):
    return list(map(g, range(n)))


def code_of(fn):
    try:
        dds.eval(fn, 2)
        return None
    except DDSException as e:
        return e.error_code


def main() -> int:
    d = tempfile.mkdtemp(prefix="k11_")
    dds.set_store("local", internal_dir=os.path.join(d, "int"), data_dir=os.path.join(d, "data"))
    dds.accept_module("__main__")
    two = code_of(g)
    one = code_of(f)
    print(f"cycle of length 2 through references: {two}; cycle of length 1 through a reference: {one}, user function ran {len(RUNS)} time(s)")
    if two == DDSErrorCode.CIRCULAR_CALL and one != DDSErrorCode.CIRCULAR_CALL:
        print("DEFECT: the self-reference is not rejected (and the user function was executed)")
        return 1
    print("ok")
    return 0


if __name__ == "__main__":
    sys.exit(main())
