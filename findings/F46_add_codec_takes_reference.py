"""F46 (C17): CodecRegistry.add_codec replaced the codec that holds a reference.

A user-registered location codec whose ref() is a reference already in use ('local.string') took the reference over:
text blobs written earlier - their metadata says 'local.string' - were then read back by the new codec, not by the codec
that wrote them.  Exits 1 when the defect is present, 0 when a taken reference is kept by its first codec.
"""
import os
import sys
import tempfile
from pathlib import PurePath
from typing import Any, List

import dds
from dds.codec import codec_registry
from dds.structures import CodecProtocol, ProtocolRef, SupportedType
from dds.structures_utils import SupportedTypeUtils as STU


class Marker:
    pass


class Intruder(CodecProtocol):
    def ref(self) -> ProtocolRef:
        return ProtocolRef("local.string")

    def handled_types(self) -> List[SupportedType]:
        return [STU.from_type(Marker)]

    def serialize_into(self, blob: Any, loc: Any) -> None:
        with open(str(loc), "wb") as f:
            f.write(b"marker")

    def deserialize_from(self, loc: Any) -> Any:
        return Marker()


def text() -> str:
    return "plain text"


def main() -> int:
    d = tempfile.mkdtemp(prefix="f46_")
    dds.set_store("local", internal_dir=os.path.join(d, "int"), data_dir=os.path.join(d, "data"))
    assert dds.keep("/t", text) == "plain text"
    before = codec_registry().get_codec(None, ProtocolRef("local.string"))
    codec_registry().add_codec(Intruder())
    after = codec_registry().get_codec(None, ProtocolRef("local.string"))
    got = dds.load("/t")
    if after is not before or got != "plain text":
        print(f"DEFECT: the reference 'local.string' is now held by {after!r}; dds.load('/t') returned {got!r} instead of 'plain text'")
        return 1
    print("ok: the reference stays with the codec that wrote the blob")
    return 0


if __name__ == "__main__":
    sys.exit(main())
