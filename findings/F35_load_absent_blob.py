# F35 (C09, C01): dds.load returned `store.fetch_blob(key)` without asking whether the store holds the blob; fetch_blob answers None for an absent
# blob (None is also a legitimate value).  Inside an evaluation the key of a path that the analysis found but the run did not produce has no
# blob: `if flag: dds.keep('/p', f)` with a false flag, followed by `dds.load('/p')`, returned None.  load now reports the missing blob.
# exits 1 before the fix (494655b), 0 after.  Run: cd /tmp && PYTHONPATH=/repo /venv/bin/python /verif/findings/F35_load_absent_blob.py
import sys
import dds

dds.set_store("memory")
dds.accept_module("__main__")
flag = False


def f():
    return 7


def top():
    if flag:
        dds.keep("/p", f)  # found by the analysis, not reached by this run
    return dds.load("/p")


try:
    r = dds.eval(top)
    print("dds.eval(top) =", r, ": dds.load answered None for a blob that is not in the store")
    sys.exit(1)
except dds.structures.DDSException as e:
    print("refused:", str(e)[:200])
    sys.exit(0)
