# F38 (C09): a path given by name - dds.load(P) - was resolved in the MODULE namespace even when P is a local variable (or a parameter) of the
# function: with `P = "/p"` in the module and `def reader(): P = "/other"; return dds.load(P)` the analysis tracked '/p' while the run loaded
# '/other': the kept reader was not evaluated again when '/other' changed.  Such a name is now refused (STORE_PATH_NOT_SUPPORTED).
# exits 1 before the fix (0458405), 0 after.  Run: cd /tmp && PYTHONPATH=/repo /venv/bin/python /verif/findings/F38_shadowed_path_variable.py
import sys
import dds

dds.set_store("memory")
dds.accept_module("__main__")
P = "/p"


def one():
    return 1


def two():
    return 2


def three():
    return 3


def reader():
    P = "/other"
    return dds.load(P)


dds.keep("/p", one)
dds.keep("/other", two)
try:
    r1 = dds.keep("/r", reader)
    dds.keep("/other", three)
    r2 = dds.keep("/r", reader)
except dds.structures.DDSException as e:
    print("refused:", e.error_code)
    sys.exit(0)
print("reader ->", r1, "then", r2, "(plain execution: 2 then 3)")
sys.exit(0 if (r1, r2) == (2, 3) else 1)
