# F19 (C19, C08): under the 'full' commit of the DBFS store, the data copies of '/.a/b' and '/a/b' shared one location:
# DBFSURI.joinpath removed the first character of any segment starting with '.', not only the './' prefix.
# fails (exit 1) before the fix, passes after. Run: cd /tmp && PYTHONPATH=/repo /venv/bin/python /verif/findings/F19_dbfs_hidden_name_copy_alias.py
import sys
from collections import OrderedDict
from dds.codecs.databricks import DBFSStore, DBFSURI, CommitType
from dds.structures import DDSPath, PyHash


class FakeFS(object):
    """dictionary-backed imitation of dbutils.fs (head / put / cp / rm)"""

    def __init__(self):
        self.files = {}

    @staticmethod
    def _local(p):
        return p[len("file://"):] if p.startswith("file://") else None

    def head(self, p, max_bytes=65536):
        if p not in self.files:
            raise Exception(f"java.io.FileNotFoundException: {p}")
        return self.files[p].decode("utf-8")[:max_bytes]

    def put(self, p, contents, overwrite=False):
        self.files[p] = contents.encode("utf-8")
        return True

    def cp(self, src, dst, recurse=False):
        lsrc, ldst = self._local(src), self._local(dst)
        if lsrc is not None:
            with open(lsrc, "rb") as f:
                self.files[dst] = f.read()
        elif ldst is not None:
            with open(ldst, "wb") as f:
                f.write(self.files[src])
        else:
            self.files[dst] = self.files[src]
        return True

    def rm(self, p, recurse=False):
        for k in [k for k in self.files if k == p or k.startswith(p + "/")]:
            del self.files[k]
        return True


class FakeDBUtils(object):
    def __init__(self):
        self.fs = FakeFS()


dbutils = FakeDBUtils()
store = DBFSStore(DBFSURI.parse("dbfs:/dds/internal"), DBFSURI.parse("dbfs:/dds/data"), dbutils, CommitType.FULL)
k1, k2 = PyHash("1" * 64), PyHash("2" * 64)
store.store_blob(k1, "value one", codec=None)
store.store_blob(k2, "value two", codec=None)
store.sync_paths(OrderedDict([(DDSPath("/.a/b"), k1)]))
store.sync_paths(OrderedDict([(DDSPath("/a/b"), k2)]))
copies = {k: v for k, v in dbutils.fs.files.items() if k.startswith("dbfs:/dds/data/") and "_dds_meta" not in k}
print("data copies:", copies)
ok = sorted(copies.values()) == [b"value one", b"value two"]
print("OK: one byte-identical copy per kept path" if ok else "FAIL: the copy of '/.a/b' was overwritten by the copy of '/a/b'")
sys.exit(0 if ok else 1)
