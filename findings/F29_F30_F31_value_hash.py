# F29 (C05): a dataclass TYPE given as a value (dataclasses.is_dataclass is true for the class too) crashed in dataclasses.asdict with a
#            TypeError instead of the documented TYPE_NOT_SUPPORTED refusal.
# F30 (C03, C05): date/time objects are hashed through repr(); a tzinfo subclass without __repr__ shows its ADDRESS in repr(), so the hash
#            changed from run to run.  Such objects are now refused.
# F31 (C05): dds.set_option('hash.max_sequence_size', None) (documented as "no limit") made `len(x) > None` raise TypeError.
# exits 1 before the fixes (5980e0b, 956ae01, 0b8fbe8), 0 after.  Run: cd /tmp && PYTHONPATH=/repo /venv/bin/python /verif/findings/F29_F30_F31_value_hash.py
import dataclasses
import datetime
import sys

import dds
from dds.fun_args import dds_hash


@dataclasses.dataclass
class A:
    x: int


class TZ(datetime.tzinfo):
    def utcoffset(self, dt):
        return datetime.timedelta(0)


bad = 0
for label, v in (("F29 dataclass type", A), ("F30 tzinfo without __repr__", TZ())):
    try:
        dds_hash(v)
        print(label, ": hashed (by its address)" if "F30" in label else ": hashed")
        bad += 1
    except dds.structures.DDSException as e:
        print(label, ": refused,", e.error_code)
    except BaseException as e:
        print(label, ": low-level", type(e).__name__)
        bad += 1
# supported siblings still hash
dds_hash(A(1)), dds_hash(datetime.timezone.utc)
dds.set_option("hash.max_sequence_size", None)
try:
    print("F31 no size limit:", dds_hash([1, 2, 3])[:8])
except BaseException as e:
    print("F31 no size limit: low-level", type(e).__name__, e)
    bad += 1
sys.exit(1 if bad else 0)
