# F44 (C08, C09): LocalFileStore.fetch_paths took the DIRECTORY that holds the entries of longer paths for a committed path: after the commit of '/k/x',
# fetch_paths(['/k']) answered {'/k': 'k'} - the key is the name of the directory - instead of refusing a path that was never committed; when the segment equals
# an existing key, dds.load of the never-kept path serves that blob.  A path entry is a link: anything else at that location is not a path.
# exits 1 before the fix (4ad7eee), 0 after.  Run: cd /tmp && PYTHONPATH=/repo /venv/bin/python /verif/findings/F44_directory_taken_for_path.py
import sys
import tempfile
from collections import OrderedDict

from dds.store import LocalFileStore
from dds.structures import DDSException, DDSPath, PyHash

d = tempfile.mkdtemp()
st = LocalFileStore(d + "/i", d + "/d")
k1 = PyHash("k1")
st.store_blob(k1, "value one", None)
st.sync_paths(OrderedDict([(DDSPath("/k1/x"), k1)]))
try:
    got = st.fetch_paths([DDSPath("/k1")])
except DDSException:
    print("'/k1' was never committed: refused")
    sys.exit(0)
print("'/k1' was never committed, yet it resolves to", dict(got), "- has_blob:", st.has_blob(got[DDSPath("/k1")]))
sys.exit(1)
