# K2 (C01, known finding, not repaired): dds.keep('/snap', acc) where acc is a @dds.data_function('/acc') raises KeyError('/acc').
# exits 1 while the defect is present. Run: cd /tmp && PYTHONPATH=/repo /venv/bin/python /verif/findings/K2_keep_data_function_under_other_path.py
import dds, tempfile, shutil, sys
d = tempfile.mkdtemp()
dds.set_store("local", internal_dir=d+"/i", data_dir=d+"/d")

@dds.data_function("/acc")
def acc():
    return 5

try:
    r = dds.keep("/snap", acc)
    print("keep(/snap, data_fn) ->", r)
    ok = (r == 5)
except BaseException as e:
    import traceback; traceback.print_exc()
    print("EXC", type(e).__name__, e)
    ok = False
shutil.rmtree(d)
sys.exit(0 if ok else 1)
