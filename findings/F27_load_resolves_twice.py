# F27 (C07, also C09): inside an evaluation dds.load resolved an external path a second time.  The signature of a kept function
# that loads '/src' is built on the key '/src' had when the evaluation started; the dds.load executed later asked the store again.
# If another process re-pointed '/src' in between, the function was computed from the NEW content and stored under the key of the
# OLD content: a foreign result, served from then on to every process for which '/src' holds the old content.
# After the fix (load uses the keys resolved at the start of the evaluation) the result is consistent with its key.
# exits 1 before the fix, 0 after.   Run: cd /tmp && PYTHONPATH=/repo /venv/bin/python /verif/findings/F27_load_resolves_twice.py
import os, shutil, subprocess, sys, tempfile
import dds
import dds.store


def src_v1():
    return "v1"


def src_v2():
    return "v2"


def g():
    return "g:" + dds.load("/src")


def child(internal_dir, data_dir, which):
    dds.set_store("local", internal_dir=internal_dir, data_dir=data_dir)
    assert dds.keep("/src", src_v1 if which == "v1" else src_v2) == which
    return 0


def run_writer(internal_dir, data_dir, which):
    r = subprocess.run([sys.executable, os.path.abspath(__file__), "child", internal_dir, data_dir, which], stdout=subprocess.PIPE, stderr=subprocess.STDOUT, timeout=300)
    assert r.returncode == 0, r.stdout.decode("utf-8", "replace")


def main():
    tdir = tempfile.mkdtemp(prefix="f27_")
    try:
        internal_dir, data_dir = os.path.join(tdir, "internal"), os.path.join(tdir, "data")
        dds.set_store("local", internal_dir=internal_dir, data_dir=data_dir)
        run_writer(internal_dir, data_dir, "v1")
        real = dds.store.LocalFileStore.fetch_paths
        state = {"n": 0}

        def fetch_paths(self, paths):
            res = real(self, paths)
            if list(paths) == ["/src"]:
                state["n"] += 1
                if state["n"] == 1:
                    # right after the evaluation resolved '/src' (to the key of "v1"), another process re-points it to "v2"
                    run_writer(internal_dir, data_dir, "v2")
            return res

        dds.store.LocalFileStore.fetch_paths = fetch_paths
        try:
            first = dds.keep("/g", g)
        finally:
            dds.store.LocalFileStore.fetch_paths = real
        run_writer(internal_dir, data_dir, "v1")  # '/src' holds "v1" again, nobody writes any more
        second = dds.keep("/g", g)
        print("keep(/g) during the race:", first, "; later, with /src == 'v1':", second)
        return 0 if second == "g:v1" else 1
    finally:
        shutil.rmtree(tdir, ignore_errors=True)


if __name__ == "__main__":
    if len(sys.argv) > 1 and sys.argv[1] == "child":
        sys.exit(child(sys.argv[2], sys.argv[3], sys.argv[4]))
    sys.exit(main())
