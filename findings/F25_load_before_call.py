# F25 (C09, C01): the signature of a call depends on what the calling function did before it (`dds_previous_interactions`), but only the
# earlier CALLS were counted, not the earlier dds.load's: in `v = dds.load('/src'); return dds.keep('/out', f, v)` the kept call did not
# depend on the content of '/src', and was served the old result after '/src' changed.
# exits 1 before the fix (6e06589), 0 after.  Run: cd /tmp && PYTHONPATH=/repo /venv/bin/python /verif/findings/F25_load_before_call.py
import sys
import dds

dds.set_store("memory")
dds.accept_module("__main__")


def one():
    return 1


def two():
    return 2


def double(v):
    return 2 * v


def reader():
    v = dds.load("/src")
    return dds.keep("/out", double, v)


dds.keep("/src", one)
r1 = dds.eval(reader)
dds.keep("/src", two)
r2 = dds.eval(reader)
print("after /src=1:", r1, "; after /src=2:", r2, "(plain execution: 2 and 4)")
sys.exit(0 if (r1, r2) == (2, 4) else 1)
