# F39 (C14): `dds.keep("/p", lambda: 11)` executed by code of a module that is NOT accepted was evaluated, stored and committed: the step that refuses
# the callables of non-accepted modules (the resolution of the call tree's paths) is skipped for lambdas, which have no path that can be resolved.
# A named function of the same module is refused ("module ... has not been whitelisted").  Lambdas of non-accepted modules are now refused too.
# exits 1 before the fix (8b4c6dc), 0 after.  Run: cd /tmp && PYTHONPATH=/repo /venv/bin/python /verif/findings/F39_lambda_in_non_accepted_module.py
import os
import sys
import tempfile

import dds

d = tempfile.mkdtemp()
with open(os.path.join(d, "f39ext.py"), "w") as f:
    f.write("import dds\n\ndef kept_lambda():\n    return dds.keep('/f39', lambda: 11)\n\ndef named():\n    return 12\n\ndef kept_named():\n    return dds.keep('/f39n', named)\n")
sys.path.insert(0, d)
import f39ext

dds.set_store("memory")
dds.accept_module("some_other_package")
res = {}
for label, fn in (("named function", f39ext.kept_named), ("lambda", f39ext.kept_lambda)):
    try:
        res[label] = ("evaluated", fn())
    except dds.structures.DDSException as e:
        res[label] = ("refused", e.error_code)
    print(label, "of a non-accepted module:", res[label])
sys.exit(0 if res["lambda"][0] == "refused" and res["named function"][0] == "refused" else 1)
