import sys, os, importlib, tempfile, shutil
d = sys.argv[1]
import dds
dds.set_store("local", internal_dir=d+"/i", data_dir=d+"/d")
sys.path.insert(0, d)
import k4mod
dds.accept_module(k4mod)
print(dds.eval(k4mod.outer, (), {}, None, None, None) if False else k4mod.run())
