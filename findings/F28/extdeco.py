import functools
def deco(n):
    def w(f):
        @functools.wraps(f)
        def g(*a, **k):
            return f(*a, **k)
        return g
    return w
