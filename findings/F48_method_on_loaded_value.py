"""F48 (C01 / C09): a method called on the value of dds.load(..) / dds.keep(..) was taken for the dds call itself.

`dds.load('/w/p').upper()` inside a kept function: the analysis named the outer call `dds/load/upper`, resolved it to the function dds.load and treated `.upper()` -
a call without arguments - as a load: DDSException 'Wrong number of args: expected 1, got []' where plain execution returns a value.  With one argument
(`dds.load('/w/p').startswith('/zzz')`) the argument of the METHOD was taken for a store path: the analysis asked the store for '/zzz'.
Exits 1 when the defect is present, 0 otherwise.
"""
import os
import sys
import tempfile

import dds


def text() -> str:
    return "value"


def shout() -> str:
    return dds.load("/w/p").upper() + "!"


def probe() -> bool:
    return dds.load("/w/p").startswith("/zzz")


def kept_len() -> int:
    return len(dds.keep("/w/q", text).strip())


def pipeline():
    dds.keep("/w/shout", shout)
    dds.keep("/w/probe", probe)
    return dds.load("/w/shout"), dds.load("/w/probe"), kept_len()


def main() -> int:
    d = tempfile.mkdtemp(prefix="f48_")
    dds.set_store("local", internal_dir=os.path.join(d, "int"), data_dir=os.path.join(d, "data"))
    dds.accept_module("__main__")
    dds.keep("/w/p", text)
    want = ("VALUE!", False, 5)
    try:
        got = dds.eval(pipeline)
    except BaseException as e:  # noqa: BLE001 (DDSException derives from BaseException)
        print(f"DEFECT: {type(e).__name__}: {str(e)[:160]}")
        return 1
    if got != want:
        print(f"DEFECT: got {got!r}, plain execution gives {want!r}")
        return 1
    print("ok:", got)
    return 0


if __name__ == "__main__":
    sys.exit(main())
