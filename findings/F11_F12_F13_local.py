"""F11 (C08) aliasing/escape, F12 (C06/C07) presence = marker, idempotent dirs, F13 (C16) relative roots."""
import os, tempfile
from collections import OrderedDict
from dds.store import LocalFileStore
from dds.structures import DDSException
base = tempfile.mkdtemp()
s = LocalFileStore(os.path.join(base, "int"), os.path.join(base, "data"))
LocalFileStore(os.path.join(base, "int"), os.path.join(base, "data"))  # second creation on existing dirs
s.store_blob("k1", "one"); s.store_blob("k2", "two")
s.sync_paths(OrderedDict([("/a/b/c", "k1")])); s.sync_paths(OrderedDict([("/ab/c", "k2")]))
assert s.fetch_paths(["/a/b/c", "/ab/c"]) == OrderedDict([("/a/b/c", "k1"), ("/ab/c", "k2")])
try:
    s.sync_paths(OrderedDict([("/../esc", "k1")])); raise SystemExit("escape accepted")
except DDSException:
    pass
assert not os.path.lexists(os.path.join(base, "esc"))
# torn blob without marker is not reported present
open(os.path.join(base, "int", "blobs", "k3"), "wb").write(b"tor")
assert not s.has_blob("k3")
# re-commit replaces the link
s.sync_paths(OrderedDict([("/a/b/c", "k2")])); assert s.fetch_paths(["/a/b/c"])["/a/b/c"] == "k2"
# relative roots
os.chdir(base)
r = LocalFileStore("rint", "rdata"); r.store_blob("k", "v"); r.sync_paths(OrderedDict([("/p", "k")]))
os.chdir("/")
assert r.fetch_paths(["/p"])["/p"] == "k" and r.fetch_blob("k") == "v"
print("ok")
