# F20 (C01): a call in argument position of a kept call (dds.keep(p, g, helper())) was not part of the keep's key: editing what helper depends on served the stale blob.
# fails (exit 1) before the fix, passes after. Run: cd /tmp && PYTHONPATH=/repo /venv/bin/python /verif/findings/F20_call_in_argument_position.py
import subprocess, sys, tempfile, shutil, os
d = tempfile.mkdtemp()
MOD = '''import dds
X = %d
def helper():
    return X
def g(v):
    return v * 2
def outer():
    return dds.keep("/p", g, helper())
def run():
    return dds.eval(outer)
'''
def once(x):
    open(os.path.join(d, "k4mod.py"), "w").write(MOD % x)
    out = subprocess.run([sys.executable, os.path.join(os.path.dirname(os.path.abspath(__file__)), "F20", "run.py"), d], capture_output=True, text=True, env={**os.environ, "PYTHONPATH": os.environ.get("PYTHONPATH", "")})
    if out.returncode: print(out.stderr[-1500:])
    return out.stdout.strip().splitlines()[-1] if out.stdout.strip() else None
r1 = once(10)
r2 = once(35)
print("X=10 ->", r1, "; X=35 ->", r2, "(plain execution: 20, 70)")
shutil.rmtree(d)
sys.exit(0 if (r1, r2) == ("20", "70") else 1)
