# F43 (C11): the path '/' (no segment) was accepted by DDSPathUtils.create. It is a prefix of every path, but the overlap check did not report it: an evaluation that
# keeps '/x' and '/' ran all its user functions and failed at the commit (local store: STORE_PATH_NOT_SUPPORTED) instead of being refused before anything runs.
# exits 1 before the fix (c9f9fc3), 0 after.  Run: cd /tmp && PYTHONPATH=/repo /venv/bin/python /verif/findings/F43_root_path.py
import sys, tempfile
import dds
d = tempfile.mkdtemp()
dds.set_store("local", internal_dir=d + "/i", data_dir=d + "/d")
dds.accept_module("__main__")
ran = []
def fx(): ran.append("fx"); return 1
def froot(): ran.append("froot"); return 2
def top():
    return dds.keep("/x", fx) + dds.keep("/", froot)
try:
    dds.eval(top)
    print("accepted; ran:", ran); sys.exit(1)
except dds.structures.DDSException as e:
    print("refused:", e.error_code, "; user functions run before the refusal:", ran)
    sys.exit(1 if ran else 0)
