# F34 (C01): the source of a function or class defined inside a block (`if cond: def f(): ..`, `try: .. except ImportError: def f(): ..`) starts with
# its indentation; it was handed to ast.parse as it stands and dds.eval raised IndentationError('unexpected indent') where plain execution
# returns a value.  The source is now dedented first.
# exits 1 before the fix (1535ab4), 0 after.  Run: cd /tmp && PYTHONPATH=/repo /venv/bin/python /verif/findings/F34_indented_definition.py
import sys
import dds

dds.set_store("memory")
dds.accept_module("__main__")

if True:
    def cond(x):
        return x * 2

    class K:
        def __init__(self, v):
            self.v = v

        def get(self):
            return self.v + 100


def top2():
    return cond(2)


def top3():
    return K(3).get()


bad = 0
for t, want in ((top2, 4), (top3, 103)):
    try:
        r = dds.eval(t)
        print(t.__name__, r)
        bad += r != want
    except BaseException as e:
        print(t.__name__, "EXC", type(e).__name__, str(e)[:100])
        bad += 1
sys.exit(1 if bad else 0)
