# F41 (C03): F30 refused a tzinfo object without __repr__, but a datetime / time that HOLDS such a time zone was still hashed from its text, which contains
# `tzinfo=<pkg.TZ object at 0x7f..>`: the signature changed from process to process.  The test now looks at the time zone of the value too.
# exits 1 before the fix (980b920), 0 after.  Run: cd /tmp && PYTHONPATH=/repo /venv/bin/python /verif/findings/F41_tz_inside_datetime.py
import datetime
import sys

import dds
from dds.fun_args import dds_hash


class TZ(datetime.tzinfo):
    def utcoffset(self, dt):
        return datetime.timedelta(0)


bad = 0
for label, v in (("datetime with such a time zone", datetime.datetime(2020, 1, 1, tzinfo=TZ())), ("time with such a time zone", datetime.time(1, 2, tzinfo=TZ()))):
    try:
        h = dds_hash(v)
        print(label, ": hashed from", repr(v)[:70])
        bad += 1
    except dds.structures.DDSException as e:
        print(label, ": refused,", e.error_code)
# values with a proper text form still hash
dds_hash(datetime.datetime(2020, 1, 1, tzinfo=datetime.timezone.utc)), dds_hash(datetime.datetime(2020, 1, 1)), dds_hash(datetime.time(1, 2))
sys.exit(1 if bad else 0)
