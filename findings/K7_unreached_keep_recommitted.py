# K7 (C04, known finding, not repaired): the path commit keeps the paths "whose blob is in the store" (the repair F23) as a stand-in for "the paths this run kept".
# A keep that the run did not reach (it sits under a condition that is false now) still has the blob an EARLIER evaluation stored under the same key: its path is
# committed again and takes back a path that another evaluation has re-pointed since - "paths that the evaluation did not keep retain their previous content" fails.
# A repair needs a run-time record of the keeps that ran (and a decision about keeps skipped because their parent was served from the store): not a small change.
# exits 1 while the defect is there.  Run: cd /tmp && PYTHONPATH=/repo /venv/bin/python /verif/findings/K7_unreached_keep_recommitted.py
import sys
import dds

dds.set_store("memory")
dds.accept_module("__main__")
reach = True


def h():
    return "from-h"


def other():
    return "from-other"


def pipeline():
    if reach:
        dds.keep("/w1/x", h)
    return 0


dds.eval(pipeline)                 # /w1/x serves h's value
dds.keep("/w1/x", other)           # /w1/x now serves "from-other"
reach = False
dds.eval(pipeline)                 # the keep of /w1/x is not reached by this run
got = dds.load("/w1/x")
print("after an evaluation that did not keep /w1/x, the path serves", repr(got), "(expected 'from-other')")
sys.exit(0 if got == "from-other" else 1)
