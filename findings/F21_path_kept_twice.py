# F21 (C01): a path kept twice in one evaluation with different arguments: both keeps used the key of the last one (second keep returned 10 instead of 20).
# After the fix the evaluation is refused with a DDSException (OVERLAPPING_PATH). exits 1 before the fix, 0 after.
# Run: cd /tmp && PYTHONPATH=/repo /venv/bin/python /verif/findings/F21_path_kept_twice.py
import dds, tempfile, shutil, sys
d = tempfile.mkdtemp()
dds.set_store("local", internal_dir=d+"/i", data_dir=d+"/d")

def f(x):
    return x * 10

def outer():
    a = dds.keep("/p", f, 1)
    b = dds.keep("/p", f, 2)
    return (a, b)

try:
    r = dds.eval(outer)
    print("outer ->", r, "(plain execution: (10, 20))")
    ok = (r == (10, 20))
except BaseException as e:
    print("EXC", type(e).__name__, str(e)[:200]); ok = isinstance(e, dds.structures.DDSException) if hasattr(dds,'structures') else False
shutil.rmtree(d)
sys.exit(0 if ok else 1)
