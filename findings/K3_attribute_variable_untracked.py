# K3 (C14, known finding, not repaired): a variable of an accepted module that is read through its module - `import k3pkg.cfg as cfg` ... `cfg.THRESH` -
# is not tracked: ExternalVarsVisitor looks at bare names only.  Editing THRESH in the accepted module changes no signature and the stale result is
# served (the spelling `from k3pkg.cfg import THRESH` is tracked).  Repairing it means teaching the visitors attribute chains: not a small change.
# exits 1 while the defect is there.  Run: cd /tmp && PYTHONPATH=/repo /venv/bin/python /verif/findings/K3_attribute_variable_untracked.py
import importlib
import os
import sys
import tempfile

import dds

d = tempfile.mkdtemp()
os.makedirs(os.path.join(d, "k3pkg"))
open(os.path.join(d, "k3pkg", "__init__.py"), "w").close()
with open(os.path.join(d, "k3pkg", "cfg.py"), "w") as f:
    f.write("THRESH = 1\n")
with open(os.path.join(d, "k3pkg", "pipe.py"), "w") as f:
    f.write("import dds\nimport k3pkg.cfg as cfg\n\ndef f():\n    return cfg.THRESH\n\ndef top():\n    return dds.keep('/k3', f)\n")
sys.path.insert(0, d)
sys.dont_write_bytecode = True
import k3pkg.cfg
import k3pkg.pipe

dds.set_store("memory")
dds.accept_module("k3pkg")
before = dds.eval(k3pkg.pipe.top)
with open(os.path.join(d, "k3pkg", "cfg.py"), "w") as f:
    f.write("THRESH = 2\n\n")
importlib.invalidate_caches()
importlib.reload(k3pkg.cfg)
importlib.reload(k3pkg.pipe)
after = dds.eval(k3pkg.pipe.top)
print("THRESH = 1 ->", before, "; THRESH = 2 ->", after, "(plain execution: 1 then 2)")
sys.exit(0 if (before, after) == (1, 2) else 1)
