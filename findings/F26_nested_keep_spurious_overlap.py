# F26 (C01, C11): a kept call nested in another kept function - dds.keep('/outer', outer, 1) where outer calls dds.keep('/inner', inner, x) -
# was analysed twice: once as the kept call (with its argument) and once as a bare reference to the function named in the dds.keep call
# (without argument).  The two analyses gave '/inner' two different signatures and the evaluation was refused with OVERLAPPING_PATH
# although plain execution returns 12 (the double analysis was harmless until F21 made "one path, two signatures" an error).
# exits 1 before the fix (f4397a4), 0 after.  Run: cd /tmp && PYTHONPATH=/repo /venv/bin/python /verif/findings/F26_nested_keep_spurious_overlap.py
import sys
import dds

dds.set_store("memory")
dds.accept_module("__main__")


def inner(x):
    return x + 10


def outer(x):
    return dds.keep("/inner", inner, x) + 1


def top():
    return dds.keep("/outer", outer, 1)


try:
    r = dds.eval(top)
except BaseException as e:
    print("refused:", type(e).__name__, str(e)[:150])
    sys.exit(1)
print("dds.eval(top) =", r, "(plain execution: 12)")
sys.exit(0 if r == 12 else 1)
