"""K10 (C08, known, not repaired): a path and a longer path that starts with it cannot both be committed to the local store.

The entry of the path /a is the link <data>/a; the entry of /a/b needs the DIRECTORY <data>/a.  Inside one evaluation the overlap is refused with
OVERLAPPING_PATH; across evaluations (or processes) nothing checks it: sync_paths({'/a': k1}) then sync_paths({'/a/b': k2}) raises FileExistsError, the other
order raises IsADirectoryError and leaves a stray temporary link.  The memory store - the dictionary model of the property - holds both.
Exits 1 while the defect is present.
"""
import os
import sys
import tempfile
from collections import OrderedDict

from dds.store import LocalFileStore, MemoryStore
from dds.structures import PyHash
from dds.structures_utils import DDSPathUtils


def run(store, first, second):
    k1, k2 = PyHash("1" * 64), PyHash("2" * 64)
    store.store_blob(k1, "one", None)
    store.store_blob(k2, "two", None)
    p1, p2 = DDSPathUtils.create(first), DDSPathUtils.create(second)
    try:
        store.sync_paths(OrderedDict([(p1, k1)]))
        store.sync_paths(OrderedDict([(p2, k2)]))
        return dict(store.fetch_paths([p1, p2]))
    except BaseException as e:  # noqa: BLE001
        return f"{type(e).__name__}"


def main() -> int:
    bad = []
    for first, second in (("/a", "/a/b"), ("/c/d", "/c")):
        d = tempfile.mkdtemp(prefix="k10_")
        model = run(MemoryStore(), first, second)
        local = run(LocalFileStore(os.path.join(d, "int"), os.path.join(d, "data")), first, second)
        print(f"{first} then {second}: memory store {model}; local store {local}")
        if model != local:
            bad.append((first, second))
    if bad:
        print("DEFECT: the local store cannot hold a path and a longer path that starts with it:", bad)
        return 1
    print("ok")
    return 0


if __name__ == "__main__":
    sys.exit(main())
