# F33 (C08): DDSPathUtils.create kept empty segments: '/a//b' and '/a/b' were two paths for the memory store (keyed by the text) and ONE path for
# the local and DBFS stores (which place a path by its non-empty segments) - keep('/a/b', one); keep('/a//b', two); load('/a/b') gave 1 with the
# memory store and 2 with the local store.  create now drops empty segments.
# exits 1 before the fix (233dee8), 0 after.  Run: cd /tmp && PYTHONPATH=/repo /venv/bin/python /verif/findings/F33_one_spelling_per_path.py
import dds, tempfile, sys
def one(): return 1
def two(): return 2
res = {}
for kind in ("memory", "local"):
    d = tempfile.mkdtemp()
    if kind == "memory": dds.set_store("memory")
    else: dds.set_store("local", internal_dir=d+"/i", data_dir=d+"/d")
    dds.keep("/a/b", one); dds.keep("/a//b", two)
    res[kind] = dds.load("/a/b")
print(res)
sys.exit(0 if res["memory"] == res["local"] else 1)
