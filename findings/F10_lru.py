"""F10 (C12): fetch of an absent key cached None -> has_blob True and a later store invisible."""
from dds._lru_store import LRUCacheStore
from dds.store import MemoryStore
s = LRUCacheStore(MemoryStore(), 3)
assert s.fetch_blob("k") is None
assert s.has_blob("k") is False
s.store_blob("k", 42, None)
assert s.has_blob("k") and s.fetch_blob("k") == 42
print("ok")
