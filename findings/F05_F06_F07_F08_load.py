"""F5-F8 (C09): loads in helpers, keep-produced paths, read-before-produce, run-time load inside an evaluation."""
import sys, types, textwrap, tempfile, os
import dds
d = tempfile.mkdtemp()
src = textwrap.dedent('''
    import dds
    def produce(): return "v1"
    def helper(): return dds.load("/p") + "!"
    def reader(): return helper()
    def pipeline():
        dds.keep("/p", produce)
        return dds.keep("/r", reader)
    def bad_order():
        x = dds.load("/q")
        dds.keep("/q", produce)
        return x
    @dds.data_function("/dp")
    def dprod(): return "d1"
    def dreader(): return dds.load("/dp") + "?"
    def pipeline2():
        dprod()
        return dds.keep("/dr", dreader)
''')
open(os.path.join(d, "f5mod.py"), "w").write(src)
sys.path.insert(0, d)
import f5mod
dds.accept_module(f5mod)
dds.set_store("memory")
assert dds.eval(f5mod.pipeline) == "v1!"          # F5 + F6 (+F8 at run time)
assert dds.eval(f5mod.pipeline2) == "d1?"         # F8: run-time load of a path produced in this evaluation
try:
    dds.eval(f5mod.bad_order)
    raise SystemExit("read-before-produce was accepted")
except dds.DDSException as e:                      # F7: a DDS error, not an AssertionError
    pass
print("ok")
