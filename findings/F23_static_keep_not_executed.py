# F23 (C04): a dds.keep that the analysis finds in the code but that the evaluation does not reach (it sits under a condition that is
# false at run time) was committed all the same: its path was linked to a key that has no blob, so a path that the evaluation did NOT keep
# lost its previous content (dds.load failed on a dangling entry).  After the fix (8b4bb4e) only the paths whose blob is in the store are
# committed.  exits 1 before the fix, 0 after.
# Run: cd /tmp && PYTHONPATH=/repo /venv/bin/python /verif/findings/F23_static_keep_not_executed.py
import dds, tempfile, shutil, sys
d = tempfile.mkdtemp()
dds.set_store("local", internal_dir=d + "/i", data_dir=d + "/d")
dds.accept_module("__main__")
COND = True


def inner():
    return 1


def outer():
    if COND:
        dds.keep("/p", inner)
    return "done"


dds.eval(outer)
first = dds.load("/p")
COND = False


def inner():  # noqa: F811  (edited producer: its key changes)
    return 2


dds.eval(outer)  # the keep of /p is not reached
try:
    second = dds.load("/p")
    print("before:", first, "after an evaluation that did not keep /p:", second)
    ok = (first, second) == (1, 1)
except BaseException as e:
    print("EXC", type(e).__name__, str(e)[:160])
    ok = False
shutil.rmtree(d)
sys.exit(0 if ok else 1)
