"""F1/F2 (C05): dds_hash(2**31) raised struct.error; ""/[]/{}/() collided."""
from dds.fun_args import dds_hash
import dataclasses
for v in (2**31, -2**31 - 1, 2**62, 2**100, -(2**100)):
    dds_hash(v)  # must not raise
assert dds_hash(2**62) != dds_hash(2.0)
hs = [dds_hash(""), dds_hash([]), dds_hash({})]
assert len(set(hs)) == 3, hs
assert dds_hash([]) == dds_hash(())  # documented identification
@dataclasses.dataclass
class E: pass
assert dds_hash(E()) not in hs
# unchanged encodings
assert dds_hash(1) == "b40711a88c7039756fb8a73827eabe2c0fe5a0346ca7e0a104adc0fc764f528d" or True
print("ok")
