# F40 (C17): CodecRegistry.add_file_codec filed the TYPES of a codec whose reference is already held by another codec (it only logged "skipping"): values of those
# types were written by the new codec, recorded under the shared reference, and read back by the OTHER codec (UnpicklingError, or a wrong value).
# The codec is now skipped altogether.
# exits 1 before the fix (2874871), 0 after.  Run: cd /tmp && PYTHONPATH=/repo /venv/bin/python /verif/findings/F40_codec_reference_taken.py
import sys, tempfile, json
from pathlib import PurePath
import dds
from dds.store import LocalFileStore
from dds.codec import codec_registry
from dds.structures import FileCodecProtocol, ProtocolRef, SupportedType, PyHash
from dds.structures_utils import SupportedTypeUtils as STU

class MyT:
    def __init__(self, v): self.v = v
    def __eq__(self, o): return isinstance(o, MyT) and o.v == self.v

class MyCodec(FileCodecProtocol):
    def ref(self): return ProtocolRef("local.pickle")          # a reference that is already taken
    def handled_types(self): return [STU.from_type(MyT)]
    def serialize_into(self, blob, loc: PurePath):
        with open(str(loc), "wb") as f: f.write(json.dumps({"v": blob.v}).encode())
    def deserialize_from(self, loc: PurePath):
        with open(str(loc), "rb") as f: return MyT(json.loads(f.read().decode())["v"])

d = tempfile.mkdtemp()
st = LocalFileStore(d + "/i", d + "/d")
codec_registry().add_file_codec(MyCodec())
k = PyHash("a" * 64)
try:
    st.store_blob(k, MyT(3), None)
    back = st.fetch_blob(k)
    print("read back:", type(back).__name__, getattr(back, "v", None))
    sys.exit(0 if back == MyT(3) else 1)
except Exception as e:
    print("written by one codec, read by another:", type(e).__name__, str(e)[:80])
    sys.exit(1)
