# F42 (C13, C01): the signature of a class used as a kept callable carried the binding of the constructor's arguments only through its methods: for a class
# without methods (NamedTuple / dataclass style) `dds.keep('/pt', Pt, 1)` and `dds.keep('/pt', Pt, 2)` shared one signature and the second call was served Pt(x=1).
# exits 1 before the fix (1cb4462), 0 after.  Run: cd /tmp && PYTHONPATH=/repo /venv/bin/python /verif/findings/F42_class_without_methods.py
import sys
from typing import NamedTuple
import dds
dds.set_store("memory")
dds.accept_module("__main__")

class Pt(NamedTuple):
    x: int
    y: int = 0

def top1(): return dds.keep("/pt", Pt, 1)
def top2(): return dds.keep("/pt", Pt, 2)
a = dds.keep("/pt", Pt, 1)
b = dds.keep("/pt", Pt, 2)
c = dds.keep("/pt", Pt, 5, y=7)
print(a, b, c, "(plain execution: Pt(1,0) Pt(2,0) Pt(5,7))")
d, e = dds.eval(top1), dds.eval(top2)
print(d, e)
sys.exit(0 if (a, b, c, d, e) == (Pt(1), Pt(2), Pt(5, 7), Pt(1), Pt(2)) else 1)
