# F37 (C13, C01, C02, C05): the static binder accepted *args parameters but bound to them only the FIRST of the remaining positional arguments:
# g(1, 2) and g(1, 3) with `def g(*vals)` shared one signature and the second call was served the result of the first.
# exits 1 before the fix (cf6355a), 0 after.  Run: cd /tmp && PYTHONPATH=/repo /venv/bin/python /verif/findings/F37_star_args_first_only.py
import sys
import dds

dds.set_store("memory")
dds.accept_module("__main__")


def ident(x):
    return x


def g(*vals):
    return dds.keep("/p", ident, vals)


def top2():
    return g(1, 2)


def top3():
    return g(1, 3)


r2, r3 = dds.eval(top2), dds.eval(top3)
print("g(1, 2) ->", r2, "; g(1, 3) ->", r3, "(plain execution: (1, 2) and (1, 3))")
sys.exit(0 if (r2, r3) == ((1, 2), (1, 3)) else 1)
