# F45 (C19): DBFS sync_paths parsed the redirect record of a path outside the try that tolerates an unreadable record: a record cut short by an interrupted
# write made every later keep of that path raise JSONDecodeError, under 'links_only' and 'full' (a torn blob marker, by contrast, is healed).  A record that
# cannot be parsed is now treated as no record and written again.
# exits 1 before the fix (3d99cdc), 0 after.  Run: cd /tmp && PYTHONPATH=/repo /venv/bin/python /verif/findings/F45_torn_redirect_record.py
import sys
from collections import OrderedDict
from dds.codecs.databricks import DBFSStore, DBFSURI, CommitType
from dds.structures import DDSPath, PyHash


class FakeFS(object):
    """dictionary-backed imitation of dbutils.fs (head / put / cp / rm)"""

    def __init__(self):
        self.files = {}

    @staticmethod
    def _local(p):
        return p[len("file://"):] if p.startswith("file://") else None

    def head(self, p, max_bytes=65536):
        if p not in self.files:
            raise Exception(f"java.io.FileNotFoundException: {p}")
        return self.files[p].decode("utf-8")[:max_bytes]

    def put(self, p, contents, overwrite=False):
        self.files[p] = contents.encode("utf-8")
        return True

    def cp(self, src, dst, recurse=False):
        lsrc, ldst = self._local(src), self._local(dst)
        if lsrc is not None:
            with open(lsrc, "rb") as f:
                self.files[dst] = f.read()
        elif ldst is not None:
            with open(ldst, "wb") as f:
                f.write(self.files[src])
        else:
            self.files[dst] = self.files[src]
        return True

    def rm(self, p, recurse=False):
        for k in [k for k in self.files if k == p or k.startswith(p + "/")]:
            del self.files[k]
        return True


class FakeDBUtils(object):
    def __init__(self):
        self.fs = FakeFS()


dbutils = FakeDBUtils()
internal, data = DBFSURI.parse("dbfs:/dds/internal"), DBFSURI.parse("dbfs:/dds/data")
k1 = PyHash("1" * 64)
st = DBFSStore(internal, data, dbutils, CommitType.FULL)
st.store_blob(k1, "value one", codec=None)
st.sync_paths(OrderedDict([(DDSPath("/w/a"), k1)]))
rec = "dbfs:/dds/data/_dds_meta/w/a"
assert rec in dbutils.fs.files, sorted(dbutils.fs.files)
dbutils.fs.files[rec] = dbutils.fs.files[rec][:10]          # the record is cut short
try:
    st.sync_paths(OrderedDict([(DDSPath("/w/a"), k1)]))
except Exception as e:
    print("the next commit of the path fails:", type(e).__name__)
    sys.exit(1)
ok = st.fetch_paths([DDSPath("/w/a")])[DDSPath("/w/a")] == k1
print("record written again:", ok)
sys.exit(0 if ok else 1)
