# K6 (C03, known finding, not repaired): a plain dict argument is hashed in insertion order.  Equal dictionaries inserted in different orders get
# different signatures, and a dictionary built from a set - whose iteration order follows PYTHONHASHSEED - gets a signature that changes from process
# to process although the argument is the same value.  A repair (canonical order of the items) would change the signature of every dictionary argument,
# i.e. break the other clause of C03 (pinned signatures stay byte-identical): it is the maintainers' call, not a small safe patch.
# exits 1 while the defect is there.  Run: cd /tmp && PYTHONPATH=/repo /venv/bin/python /verif/findings/K6_dict_insertion_order.py
import sys
from dds.fun_args import dds_hash

a = {"alpha": 5, "beta": 4, "gamma": 5, "delta": 5}
b = {"delta": 5, "gamma": 5, "beta": 4, "alpha": 5}
assert a == b
ha, hb = dds_hash(a), dds_hash(b)
print("equal dictionaries:", ha[:12], hb[:12])
sys.exit(0 if ha == hb else 1)
