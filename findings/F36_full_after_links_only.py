# F36 (C19): DBFS sync_paths decided "up to date" from the redirect record alone.  A store opened with commit_type 'links_only' writes the record; a
# later store on the same directories with commit_type 'full' commits the same key, finds the record current and never makes the copy: under
# 'full' the data directory holds a record and NO copy of the kept result.  The record now says whether the copy was made.
# exits 1 before the fix (d20f537), 0 after.  Run: cd /tmp && PYTHONPATH=/repo /venv/bin/python /verif/findings/F36_full_after_links_only.py
import sys
from collections import OrderedDict
from dds.codecs.databricks import DBFSStore, DBFSURI, CommitType
from dds.structures import DDSPath, PyHash


class FakeFS(object):
    """dictionary-backed imitation of dbutils.fs (head / put / cp / rm)"""

    def __init__(self):
        self.files = {}

    @staticmethod
    def _local(p):
        return p[len("file://"):] if p.startswith("file://") else None

    def head(self, p, max_bytes=65536):
        if p not in self.files:
            raise Exception(f"java.io.FileNotFoundException: {p}")
        return self.files[p].decode("utf-8")[:max_bytes]

    def put(self, p, contents, overwrite=False):
        self.files[p] = contents.encode("utf-8")
        return True

    def cp(self, src, dst, recurse=False):
        lsrc, ldst = self._local(src), self._local(dst)
        if lsrc is not None:
            with open(lsrc, "rb") as f:
                self.files[dst] = f.read()
        elif ldst is not None:
            with open(ldst, "wb") as f:
                f.write(self.files[src])
        else:
            self.files[dst] = self.files[src]
        return True

    def rm(self, p, recurse=False):
        for k in [k for k in self.files if k == p or k.startswith(p + "/")]:
            del self.files[k]
        return True


class FakeDBUtils(object):
    def __init__(self):
        self.fs = FakeFS()


dbutils = FakeDBUtils()
internal, data = DBFSURI.parse("dbfs:/dds/internal"), DBFSURI.parse("dbfs:/dds/data")
k1 = PyHash("1" * 64)
links = DBFSStore(internal, data, dbutils, CommitType.LINK_ONLY)
links.store_blob(k1, "value one", codec=None)
links.sync_paths(OrderedDict([(DDSPath("/w/a"), k1)]))
assert "dbfs:/dds/data/w/a" not in dbutils.fs.files, "links-only commit made a copy"
full = DBFSStore(internal, data, dbutils, CommitType.FULL)
full.sync_paths(OrderedDict([(DDSPath("/w/a"), k1)]))
copy = dbutils.fs.files.get("dbfs:/dds/data/w/a")
blob = dbutils.fs.files.get("dbfs:/dds/internal/blobs/" + k1)
print("copy under the data directory after the 'full' commit:", copy)
ok = copy is not None and copy == blob
# the next 'full' commit of the same key is a no-op again (the record vouches for the copy)
before = dict(dbutils.fs.files)
full.sync_paths(OrderedDict([(DDSPath("/w/a"), k1)]))
ok = ok and before == dbutils.fs.files and full.fetch_paths([DDSPath("/w/a")])[DDSPath("/w/a")] == k1
print("OK" if ok else "FAIL: 'full' left a redirect record but no byte-identical copy of the kept result")
sys.exit(0 if ok else 1)
