"""K9 (C03, known, not repaired): the signature of a function depends on what happens to be importable from sys.path.

ObjectRetrieval.retrieve_object() calls importlib.import_module(name) for every name of a function body that is neither a local variable nor a global of the
module: builtins (sum, len, ...), parameters of nested lambdas / nested defs, `except ... as e` names ...  When a module *or a plain directory* (a namespace
package) of that name can be imported - python puts the working directory on sys.path for `python -c`, `python -m` and notebooks - the name becomes an external
dependency <name> of the function and enters its signature: the same source with the same arguments gets another signature in a working directory that holds a
directory called `row` or `sum`.  Exits 1 while the defect is present (found by a seeding sub-agent on the clean tree).
"""
import os
import subprocess
import sys
import tempfile
import textwrap

tmp = tempfile.mkdtemp(prefix="dds_c03_weak_")
pkg = os.path.join(tmp, "lib")
os.makedirs(pkg)
with open(os.path.join(pkg, "c03w_pipe.py"), "w") as f:
    f.write(
        textwrap.dedent(
            '''
            import dds
            from dds.store import MemoryStore


            def bump(xs):
                return sum(map(lambda row: row + 1, xs))


            def main():
                st = MemoryStore()
                dds.set_store(st)
                dds.keep("/out", bump, [1, 2])
                print(st._paths["/out"])
            '''
        )
    )

sigs = {}
for (name, subdirs) in [("empty cwd", []), ("cwd with a data directory 'row/'", ["row"]), ("cwd with 'sum/'", ["sum"])]:
    cwd = tempfile.mkdtemp(dir=tmp)
    for d in subdirs:
        os.makedirs(os.path.join(cwd, d))
    env = dict(os.environ, PYTHONPATH=os.pathsep.join([pkg] + sys.path))
    # (python -c puts the working directory first on sys.path, like `python -m` and notebooks do)
    out = subprocess.run(
        [sys.executable, "-W", "ignore", "-c", "import dds, c03w_pipe; dds.accept_module('c03w_pipe'); c03w_pipe.main()"],
        cwd=cwd, env=env, capture_output=True, text=True, check=True,
    ).stdout.strip()
    sigs[name] = out
    print(f"{name:35s} {out}")
if len(set(sigs.values())) != 1:
    print("DEFECT: same source, same arguments, different working directory => different signatures")
    sys.exit(1)
print("ok: one signature")
