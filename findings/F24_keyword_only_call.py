# F24 (C13, C01, C02, C05): a plain call spelled with keyword arguments only - g(a=2) - bound NO argument: the static binding was made from
# the positional arguments alone, so the callee was keyed by the defaults of its parameters.  g(a=2) and g(a=3) gave the kept call inside
# g the same signature, and the second evaluation was served the result of the first.
# exits 1 before the fix (3352586), 0 after.  Run: cd /tmp && PYTHONPATH=/repo /venv/bin/python /verif/findings/F24_keyword_only_call.py
import sys
import dds

dds.set_store("memory")
dds.accept_module("__main__")


def ident(x):
    return x


def g(a=1):
    return dds.keep("/p", ident, a)


def top2():
    return g(a=2)


def top3():
    return g(a=3)


r2 = dds.eval(top2)
r3 = dds.eval(top3)
print("g(a=2) ->", r2, "; g(a=3) ->", r3, "(plain execution: 2 and 3)")
sys.exit(0 if (r2, r3) == (2, 3) else 1)
