"""F16 (C01): edit on the 3rd line of a kept call; F17 (C01): bool / tuple / None / date module globals are value-tracked."""
import sys, os, tempfile, textwrap, importlib, datetime
import dds
d = tempfile.mkdtemp(); sys.path.insert(0, d)
def write(body):
    open(os.path.join(d, "f16mod.py"), "w").write(textwrap.dedent(body))
T = '''
    import dds, datetime
    FLAG = {flag}
    TUP = {tup}
    NON = {non}
    DAY = {day}
    def add(a, b): return a + b
    def use_globals(): return (FLAG, TUP, NON, DAY)
    def pipeline(x):
        y = dds.keep("/sum", add,
                     x,
                     {third})
        return y, dds.keep("/g", use_globals)
'''
def run(**kw):
    write(T.format(**kw))
    import f16mod
    importlib.reload(f16mod)
    dds.accept_module(f16mod)
    return dds.eval(f16mod.pipeline, 1)
dds.set_store("memory")
base = dict(flag="True", tup="(1, 2)", non="None", day="datetime.date(2020, 1, 1)", third="2")
assert run(**base) == (3, (True, (1, 2), None, datetime.date(2020, 1, 1)))
assert run(**{**base, "third": "3"})[0] == 4            # F16
assert run(**{**base, "flag": "False"})[1][0] is False  # F17 bool
assert run(**{**base, "tup": "(1, 3)"})[1][1] == (1, 3)
assert run(**{**base, "non": "(0,)"})[1][2] == (0,)
assert run(**{**base, "day": "datetime.date(2021, 1, 1)"})[1][3] == datetime.date(2021, 1, 1)
print("ok")
