# F28 (C11): the search for the @dds.data_function decorator of a function stopped at the first decorator that is a call of something
# else (`@extdeco.deco(1)` above `@dds.data_function('/w/a')`): the function was then not seen as a data function by the static checks,
# and the ill-formed evaluation below ('/w/a' is a prefix of '/w/a/b') ran instead of being refused before anything runs.
# exits 1 before the fix (9269327), 0 after.  Run: cd /tmp && PYTHONPATH=/repo /venv/bin/python /verif/findings/F28_decorator_hides_data_function.py
import os
import sys

sys.path.insert(0, os.path.join(os.path.dirname(os.path.abspath(__file__)), "F28"))
import dds
import extdeco

dds.set_store("memory")
dds.accept_module("__main__")


@extdeco.deco(1)
@dds.data_function("/w/a")
def a():
    return 1


@dds.data_function("/w/a/b")
def b():
    return 2


def top():
    return a() + b()


try:
    print(dds.eval(top))
    print("NOT REJECTED: '/w/a' and '/w/a/b' overlap")
    sys.exit(1)
except dds.structures.DDSException as e:
    print("DDSException", e.error_code)
    sys.exit(0)
