"""K1 (C02, known finding): a variable of untracked type in an accepted module is recorded by its module-qualified name,
so copying the same code to another accepted module changes the signature (re-execution with nothing changed)."""
import sys, os, tempfile, textwrap
import dds
d = tempfile.mkdtemp(); sys.path.insert(0, d)
body = textwrap.dedent('''
    import dds
    from collections import Counter
    OBJ = Counter()
    def f():
        return len(OBJ)
''')
for m in ("k1_moda", "k1_modb"):
    open(os.path.join(d, m + ".py"), "w").write(body)
import k1_moda, k1_modb
dds.accept_module(k1_moda); dds.accept_module(k1_modb)
captured = []
from dds.store import MemoryStore
class S(MemoryStore):
    def sync_paths(self, paths):
        captured.append(dict(paths)); super().sync_paths(paths)
dds.set_store(S())
dds.keep("/k1", k1_moda.f); dds.keep("/k1", k1_modb.f)
a, b = captured[0]["/k1"], captured[1]["/k1"]
print("signature in moda:", a[:12], " in modb:", b[:12])
assert a == b, "same code in another accepted module got another signature"
