# F32 (C08, C19): the DBFS store mapped a path to `<data_dir>/<path>` (copy) and `<data_dir>/_dds_meta/<path>` (redirection) without looking
# at the segments: '/_dds_meta/x' collided with the redirection of '/x', '/a/./b' aliased '/a/b', '/../../x' left the store directories.
# After the fix such paths are refused with STORE_PATH_NOT_SUPPORTED (like the local store does for dot segments).
# exits 1 before the fix, 0 after.  Run: cd /tmp && PYTHONPATH=/repo /venv/bin/python /verif/findings/F32_dbfs_reserved_and_dot_segments.py
import sys
from collections import OrderedDict
from dds.codecs.databricks import DBFSStore, DBFSURI, CommitType
from dds.structures import DDSPath, PyHash


class FakeFS(object):
    """dictionary-backed imitation of dbutils.fs (head / put / cp / rm)"""

    def __init__(self):
        self.files = {}

    @staticmethod
    def _local(p):
        return p[len("file://"):] if p.startswith("file://") else None

    def head(self, p, max_bytes=65536):
        if p not in self.files:
            raise Exception(f"java.io.FileNotFoundException: {p}")
        return self.files[p].decode("utf-8")[:max_bytes]

    def put(self, p, contents, overwrite=False):
        self.files[p] = contents.encode("utf-8")
        return True

    def cp(self, src, dst, recurse=False):
        lsrc, ldst = self._local(src), self._local(dst)
        if lsrc is not None:
            with open(lsrc, "rb") as f:
                self.files[dst] = f.read()
        elif ldst is not None:
            with open(ldst, "wb") as f:
                f.write(self.files[src])
        else:
            self.files[dst] = self.files[src]
        return True

    def rm(self, p, recurse=False):
        for k in [k for k in self.files if k == p or k.startswith(p + "/")]:
            del self.files[k]
        return True


class FakeDBUtils(object):
    def __init__(self):
        self.fs = FakeFS()


dbutils = FakeDBUtils()
store = DBFSStore(DBFSURI.parse("dbfs:/dds/internal"), DBFSURI.parse("dbfs:/dds/data"), dbutils, CommitType.FULL)
k1, k2, k3 = PyHash("1" * 64), PyHash("2" * 64), PyHash("3" * 64)
for k, v in ((k1, "value one"), (k2, "value two"), (k3, "value three")):
    store.store_blob(k, v, codec=None)
from dds.structures import DDSException
problems = []


def commit(path, key):
    """True when the path was committed, False when the store refused it with a coded error"""
    try:
        store.sync_paths(OrderedDict([(DDSPath(path), key)]))
        return True
    except DDSException as e:
        print(f"{path}: refused ({e.error_code})")
        return False


# 1. '/_dds_meta/x' is where the redirection of '/x' lives: under the full commit the copy of one is the record of the other
commit("/x", k1)
commit("/_dds_meta/x", k2)
try:
    got = store.fetch_paths([DDSPath("/x")])
    if got.get(DDSPath("/x")) != k1:
        problems.append(f"/x resolves to {got} after /_dds_meta/x was committed")
except DDSException:
    raise
except BaseException as e:
    problems.append(f"/x cannot be resolved any more after '/_dds_meta/x' was committed: {type(e).__name__}")
# 2. dot segments: '/a/./b' and '/a/b' differ in their non-empty segments and must not share a location
commit("/a/b", k1)
if commit("/a/./b", k3):
    if store.fetch_paths([DDSPath("/a/b")]).get(DDSPath("/a/b")) != k1:
        problems.append("'/a/./b' re-pointed '/a/b'")
# 3. '..' leaves the data directory
if commit("/../../escaped", k2):
    outside = [k for k in dbutils.fs.files if not k.startswith("dbfs:/dds/")]
    if outside:
        problems.append(f"'/../../escaped' wrote outside the store: {outside}")
for p_ in problems:
    print("FAIL:", p_)
print("OK" if not problems else f"{len(problems)} problem(s)")
sys.exit(0 if not problems else 1)
