"""F47 (C12): the object cache kept serving an object after the key was stored again.

store_blob(k, [1]); fetch_blob(k); store_blob(k, [2]); fetch_blob(k): the bare stores (memory, local) answer [2] - both overwrite -
the store wrapped with the object cache answered [1].  Lock-step comparison of the wrapped and the bare store on that sequence, for the
memory and the local store and capacities 1, 3 and 10.  Exits 1 when an answer differs, 0 otherwise.
"""
import os
import sys
import tempfile

from dds._lru_store import LRUCacheStore
from dds.store import LocalFileStore, MemoryStore
from dds.structures import PyHash


def stores(kind):
    if kind == "memory":
        return MemoryStore(), MemoryStore()
    d = tempfile.mkdtemp(prefix="f47_")
    mk = lambda n: LocalFileStore(os.path.join(d, n, "int"), os.path.join(d, n, "data"))  # noqa: E731
    return mk("a"), mk("b")


def main() -> int:
    k = PyHash("ab" * 32)
    bad = []
    for kind in ("memory", "local"):
        for cap in (1, 3, 10):
            bare, inner = stores(kind)
            wrapped = LRUCacheStore(inner, cap)
            for s in (bare, wrapped):
                s.store_blob(k, [1], None)
            a1, b1 = bare.fetch_blob(k), wrapped.fetch_blob(k)
            for s in (bare, wrapped):
                s.store_blob(k, [2], None)
            a2, b2 = bare.fetch_blob(k), wrapped.fetch_blob(k)
            if (a1, a2) != (b1, b2):
                bad.append((kind, cap, "bare", (a1, a2), "wrapped", (b1, b2)))
    for b in bad:
        print("DEFECT:", b)
    if not bad:
        print("ok: the wrapped store answers like the bare one after a key is stored again")
    return 1 if bad else 0


if __name__ == "__main__":
    sys.exit(main())
