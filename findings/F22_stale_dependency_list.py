# F22 (C03, also C11 / C14 through the shared global-cache rule): history dependence through the process-wide context.
# Evaluate f (which calls helper), delete helper and redefine f without it (a later notebook cell): before the fix the next
# evaluation of f resolved the dependency names recorded by the first evaluation and raised "Cannot load path <__main__/helper>",
# where a fresh process evaluates the same f.  exits 1 before the fix (94ceca7), 0 after.
# Run: cd /tmp && PYTHONPATH=/repo /venv/bin/python /verif/findings/F22_stale_dependency_list.py
import dds, tempfile, shutil, sys
d = tempfile.mkdtemp()
dds.set_store("local", internal_dir=d + "/i", data_dir=d + "/d")
dds.accept_module("__main__")


def helper():
    return 1


def f():
    return helper() + 1


first = dds.keep("/p", f)
del helper


def f():  # noqa: F811  (the redefinition is the point)
    return 5


try:
    second = dds.keep("/p", f)
    print("first:", first, "second:", second, "(plain execution: 2 then 5)")
    ok = (first, second) == (2, 5)
except BaseException as e:
    print("EXC", type(e).__name__, str(e)[:160])
    ok = False
shutil.rmtree(d)
sys.exit(0 if ok else 1)
