"""F3 (C13): p.default or "__none__": f(1) != f(1, 0) for default 0; defaults 0 / "" / None collide; literal None != runtime None."""
import ast
from collections import OrderedDict
from dds.fun_args import get_arg_ctx, get_arg_ctx_ast
def f(a, b=0): return a
def g(a, b=""): return a
def h(a, b=None): return a
assert get_arg_ctx(f, (1,), {}) == get_arg_ctx(f, (1, 0), {}) == get_arg_ctx(f, (1,), {"b": 0})
hb = lambda fn: get_arg_ctx(fn, (1,), {}).named_args["b"]
assert len({hb(f), hb(g), hb(h)}) == 3
lit = get_arg_ctx_ast(h, [ast.Constant(1), ast.Constant(None)], OrderedDict())
run = get_arg_ctx(h, (1, None), {})
assert lit == run.named_args, (lit, run.named_args)
assert get_arg_ctx_ast(h, [ast.Constant(1)], OrderedDict()) == run.named_args
print("ok")
