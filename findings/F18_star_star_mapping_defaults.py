# F18 (C13): a kept call seen in source that passes a ** mapping was bound as if every parameter took its default.
# fails (exit 1) before the fix, passes after. Run: cd /tmp && PYTHONPATH=/repo /venv/bin/python /verif/findings/F18_star_star_mapping_defaults.py
import dds, tempfile, shutil, sys
d = tempfile.mkdtemp()
dds.set_store("local", internal_dir=d+"/i", data_dir=d+"/d")
dds.accept_module(sys.modules[__name__]) if hasattr(dds,'accept_module') else None

def f(a=0, b=1):
    return a*10 + b

def outer():
    opts = {"a": 5}
    return dds.keep("/p", f, **opts)

r1 = dds.eval(outer)
r2 = dds.keep("/p", f)
print("outer ->", r1, "; direct f() ->", r2, "(expected 1)")
shutil.rmtree(d)
sys.exit(0 if r2 == 1 else 1)
