# K8 (C05, known finding, not repaired): the value hasher digests an integer from its 4 big-endian bytes, a float from its 8 bytes, None from the text
# '__DDS_NONE__' - and a string from its UTF-8 bytes, without any type tag: 1094861636 and 'ABCD', 0.0 and '\x00' * 8, None and '__DDS_NONE__' share a signature, and
# a result computed for one is served for the other.  (list = tuple, bool = int, path / date = text are documented identifications; these are not.)  Tagging the
# encodings would change the signature of every integer / float / None argument and variable: the other clause of C03, the maintainers' call.
# exits 1 while the defect is there.  Run: cd /tmp && PYTHONPATH=/repo /venv/bin/python /verif/findings/K8_cross_type_collisions.py
import sys
import dds
from dds.fun_args import dds_hash

pairs = [(1094861636, "ABCD"), (0.0, "\x00" * 8), (None, "__DDS_NONE__")]
bad = [(a, b) for a, b in pairs if dds_hash(a) == dds_hash(b)]
for a, b in bad:
    print(f"dds_hash({a!r}) == dds_hash({b!r})")
dds.set_store("memory")


def describe(v):
    return type(v).__name__


r1, r2 = dds.keep("/k8", describe, 1094861636), dds.keep("/k8", describe, "ABCD")
print("describe(1094861636) ->", r1, "; describe('ABCD') ->", r2, "(plain execution: int, str)")
sys.exit(1 if bad or (r1, r2) != ("int", "str") else 0)
