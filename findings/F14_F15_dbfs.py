"""F14/F15 (C19): documented commit types decode; legacy aliases map to the codec of the same kind."""
import dds, dds._api as api
from dds.codecs.databricks import DBFSStore, CommitType, DBFSURI
class FS:
    def head(self, p): raise Exception("missing")
    def put(self, *a, **k): pass
    def cp(self, *a, **k): pass
class DBU: fs = FS()
want = {"none": CommitType.NO_COMMIT, "links_only": CommitType.LINK_ONLY, "full": CommitType.FULL, None: CommitType.FULL,
        "FULL": CommitType.FULL, "link_only": CommitType.LINK_ONLY, "no_commit": CommitType.NO_COMMIT}
for k, v in want.items():
    dds.set_store("dbfs", internal_dir="dbfs:/i", data_dir="dbfs:/d", dbutils=DBU(), commit_type=k)
    assert api._store_var._commit_type == v, (k, api._store_var._commit_type)
st = DBFSStore(DBFSURI.parse("dbfs:/i"), DBFSURI.parse("dbfs:/d"), DBU(), CommitType.FULL)
for old, new in (("dbfs.pickle", "local.pickle"), ("dbfs.bytes", "local.bytes"), ("dbfs.string", "local.string")):
    assert st._registry.get_codec(None, old).ref() == new, (old, st._registry.get_codec(None, old).ref())
dds.set_store("memory")
print("ok")
