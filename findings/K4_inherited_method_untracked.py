# K4 (C14, known finding, not repaired): the methods a class inherits from a base class of another accepted module are not tracked: inspect_class
# analyses the methods of the class body only ("TODO: take into account the base classes").  Editing Base.get changes no signature of a function
# that calls Child().get(): the stale result is served.
# exits 1 while the defect is there.  Run: cd /tmp && PYTHONPATH=/repo /venv/bin/python /verif/findings/K4_inherited_method_untracked.py
import importlib
import os
import sys
import tempfile

import dds

d = tempfile.mkdtemp()
os.makedirs(os.path.join(d, "k4pkg"))
open(os.path.join(d, "k4pkg", "__init__.py"), "w").close()
with open(os.path.join(d, "k4pkg", "base.py"), "w") as f:
    f.write("class Base:\n    def get(self):\n        return 1\n")
with open(os.path.join(d, "k4pkg", "pipe.py"), "w") as f:
    f.write("import dds\nfrom k4pkg.base import Base\n\nclass Child(Base):\n    def other(self):\n        return 0\n\ndef f():\n    return Child().get()\n\n"
            "def top():\n    return dds.keep('/k4', f)\n")
sys.path.insert(0, d)
sys.dont_write_bytecode = True
import k4pkg.base
import k4pkg.pipe

dds.set_store("memory")
dds.accept_module("k4pkg")
before = dds.eval(k4pkg.pipe.top)
with open(os.path.join(d, "k4pkg", "base.py"), "w") as f:
    f.write("class Base:\n    def get(self):\n        return 2\n\n")
importlib.invalidate_caches()
importlib.reload(k4pkg.base)
importlib.reload(k4pkg.pipe)
after = dds.eval(k4pkg.pipe.top)
print("Base.get returns 1 ->", before, "; returns 2 ->", after, "(plain execution: 1 then 2)")
sys.exit(0 if (before, after) == (1, 2) else 1)
