#!/venv/bin/python
"""Regenerates MANIFEST.json from the table below (kept in one place so it is always valid)."""
import json, os, sys
HERE = os.path.dirname(os.path.abspath(__file__))
sys.path.insert(0, HERE)
from manifest_table import CHECKS, NOT_APPLICABLE  # noqa

BASELINE = ("cd /repo && /venv/bin/python -m pytest -ra -q -p no:cacheprovider --timeout=900 "
            "--continue-on-collection-errors --junitxml=/tmp/dds_baseline.junit.xml")
man = {
    "version": 1,
    "setup_cmd": "cd /verif && /venv/bin/python -m compileall -q ddsverif variants >/dev/null && ./check --selfcheck",
    "hooks": {
        "guard": "DDS_PY_VERIF",
        "enable": "none needed: the checks read /repo's source and execute nothing of it; no hook or instrumentation exists in /repo",
        "baseline_off_cmd": BASELINE,
        "source_commits": [],
        "add_only": True,
    },
    "engines": [{
        "name": "ddsverif",
        "path": "/verif/ddsverif",
        "serves_properties": [c["property_id"] for c in CHECKS],
        "kind_free_text": "repository-specific static analyser: ast program model, statement CFG with exceptional edges, "
                          "reaching definitions and interprocedural backward slices, mypy type facts, finite-domain "
                          "abstract evaluation of decoder functions, file-system effect summaries with a typestate exploration (crash points, "
                          "two-process interleavings) of the extracted effect sequences, tree normalisation by helper inlining",
    }],
    "checks": [],
    "not_applicable": NOT_APPLICABLE,
    "notes": "All checks are static (no dds code is executed). Exit 2 + ANALYSIS-ERROR means the analysis could not decide "
             "(missing anchor, unknown idiom, floor not met, checker regression); it is never reported as a violation.",
}
for c in CHECKS:
    pid = c["property_id"]
    man["checks"].append({
        "property_id": pid,
        "quick_cmd": f"./check {pid} --tier quick",
        "thorough_cmd": f"./check {pid} --tier thorough",
        "evidence_file": f"/verif/evidence/{pid}.json",
        "replay_cmd_template": f"./check {pid} --replay {{path}}",
        "engine": "ddsverif",
        "level_claimed": {"category": "other", "text": c["text"], "design_ref": c["design_ref"]},
        "level_note": c["note"],
        "technique": c["technique"],
    })
with open(os.path.join(HERE, "MANIFEST.json"), "w") as f:
    json.dump(man, f, indent=1)
print("wrote MANIFEST.json with", len(man["checks"]), "checks,", len(NOT_APPLICABLE), "not applicable")
