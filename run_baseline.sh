#!/bin/sh
# runs the pinned baseline suite of /repo (guard off: there are no hooks) and prints the pass/fail counts
cd /repo && /venv/bin/python -m pytest -q -p no:cacheprovider --timeout=900 --continue-on-collection-errors dds_tests 2>&1 | tail -4
