"""Single source for MANIFEST.json (see tools_gen_manifest.py)."""
NOTE = ("Trusted: CPython ast, mypy 1.5.1 inference for receiver/set types, the ddsverif engine (self-validated by the "
        "variant corpus in the thorough tier). Decides the listed structural clauses, each a necessary condition of the "
        "property (a violated clause has a concrete input / crash point / interleaving / history as counterexample); it does "
        "not decide the behaviour as a whole (see DESIGN.md section 4 for what is not decided).")
WHY = (" Each clause holds or fails for every input / schedule / crash point / history at once, which is the quantifier the "
       "59 example tests lack.")

_T = {
 "C01": ("signature composition completeness (every component reaches the order-insensitive combiner and its producer), visitor "
         "traversal completeness, call-site extent covers the call's end line, tracked-type table covers every hashable plain type "
         "(abstract evaluation of the classifier), memo protocol key/value identity on the API's CFG",
         "def-use slices, CFG dominance, abstract evaluation of the type classifier"),
 "C02": ("no module identity / file position reaches a signature sink (interprocedural backward slices), the call-context key "
         "enters a signature only when some argument has no static hash, presence test dominates execution, literal = run-time "
         "argument hashing (shared with C13)", "interprocedural taint by backward slicing, CFG dominance"),
 "C03": ("no nondeterminism source (id, hash, repr of objects, environment, time, random) and no hash-seed iteration order reaches a "
         "signature sink; the cross-evaluation interaction cache has no writer; the per-evaluation context does not escape; debug / "
         "export options do not reach the analysis", "taint and order-taint by backward slicing with mypy set types, who-may-write, escape check"),
 "C04": ("one commit of the complete path map after the root value exists on every normal path, no other committer; load = path -> key -> "
         "blob; writer and reader location terms agree per store; destructive effects confined to the committed path",
         "CFG must-pass-through, def-use identity, file-system effect summaries"),
 "C05": ("totality (partial primitives such as struct.pack guarded by their domain), determinism, no digest memo keyed by value equality (lru_cache, module-level or hasher-local mapping), no component dropped and order kept in "
         "container branches, boundary pre-images pairwise distinct (abstract evaluation on None, '', [], (), {}, empty dataclass), numeric "
         "encodings of disjoint length / tagged, size guard dominates iteration",
         "abstract evaluation of the value hasher on boundary classes, CFG dominance, table of partial primitives"),
 "C06": ("atomic publication of every reader-visible name (rename of a private unique temporary), commit marker published last and "
         "presence = marker, no publication before serialisation completed, writer-unique temporaries, store_blob always reaches the marker",
         "file-system effect summaries over path terms, CFG dominance / must-pass-through"),
 "C07": ("no check-then-act on shared names, idempotent directory creation, writer-unique temporaries beside their target, atomic "
         "publication and marker-last", "file-system effect summaries, branch-condition / probe matching"),
 "C08": ("path -> location term injective on non-empty segments (segment-domain evaluation), dot segments rejected or exact containment "
         "test before the location is used, blob / metadata names disjoint, writer and reader terms equal per store, store_blob "
         "always publishes the marker", "segment-domain abstract evaluation of path expressions, CFG dominance, term equality"),
 "C09": ("call-tree traversals keyed on their own parameter, every in-evaluation producer registers its path before later siblings are "
         "analysed, a read-before-produce reaches a DDSException (at the load's visit), run-time load consults the evaluation's map, "
         "external loads resolved before analysis, loaded paths are a signature component with duplicates removed, the keys of the pairs inside one source of a combined signature are pairwise distinct (position or mapping key, never the element of a sequence)",
         "def-use dependence of recursion guards, CFG dominance, who-must-register"),
 "C10": ("context reset post-dominates every context set (exceptional edges included), store_blob / sync_paths dominated by the normal "
         "completion of the user call / root value and outside handlers, who-may-call for the store mutators, no swallowing handler "
         "around the user call", "CFG dominance / post-dominance with exceptional edges, reaching definitions, who-may-call"),
 "C11": ("groupby / scan of runs only over input sorted by the same key, cycle test dominates every descent with the stack extended by the callee "
         "actually descended into, nested-eval rejection static x2 + dynamic, analysis and rejections dominate the first user call and "
         "store mutation, sibling agreement of the two inspectors, required rejection codes exist",
         "CFG dominance, reaching definitions, sibling cross-check"),
 "C12": ("cache insertion control-dependent on presence evidence, key additions post-dominated by the eviction loop with the exact "
         "capacity, single capacity writer and private mapping, pass-through shapes, cache_objects decode table",
         "CFG dominance / post-dominance, who-may-write with mypy receiver types, abstract evaluation of the option decoder"),
 "C13": ("both argument binders enumerate all parameters with the same three-way source structure; the value normaliser is identical "
         "(identity) at every hashing site: positional / keyword / default / literal; parameters come from inspect.signature in both",
         "sibling cross-check of the two binders, abstract evaluation of normaliser expressions on {None, falsy, truthy}"),
 "C14": ("prefix enumeration bounded by the path and compared component-wise, registration adds exactly the module name and never "
         "removes, authorisation test follows re-export redirection, external objects carry no value and are never descended into",
         "index-domain lint, def-use, CFG dominance, who-may-write"),
 "C15": ("user call and store mutations dominated by an outcome implying EVAL in stages, path commit by PATH_COMMIT in stages, no other "
         "committer, nothing before the stage guard reaches a store mutation or user code, stage parser decode table, stage list does "
         "not reach the analysis", "CFG dominance, call-graph reachability, abstract evaluation of the stage parser"),
 "C16": ("roots made absolute in the constructor, blob names depend on the internal directory only and path entries on the data "
         "directory only, link target is the absolute blob term, set_store('local') decode table, idempotent directory creation",
         "file-system effect summaries over path terms, abstract evaluation of set_store"),
 "C17": ("persisted reference = ref() of the serialising codec, read codec looked up by the persisted reference only and read mode decided "
         "by the codec's class, distinct references per registry, dual serialise / deserialise operations in binary mode, text and bytes "
         "verbatim, registration keeps the two lookup tables consistent", "def-use identity, sibling duality table, table-consistency cross-check"),
 "C19": ("documented commit-type literals (read from the docstring) decode to distinct members with the documented effect classes, legacy "
         "alias kind = target codec kind, per-commit-type effect sets of sync_paths, metadata / redirect record written last, read mode "
         "decided by codec class", "abstract evaluation of set_store, file-system effect summaries with branch conditions decided per commit type"),
}
_DONE = sorted(_T)

MORE = (" Further necessary conditions were added while building, each with the seeded change or refactoring that showed the need "
        "(DESIGN.md 9.3, 9.8, 9.12 - 9.17: e.g. crash / interleaving sweeps over the extracted effect model, cache ownership, exact reference "
        "lookup, no state left by an evaluation, lossless source text, readers are read-only, mypy-checked kinds of names (NewTypes) at every "
        "analysis call, pinned pre-images of a value table by abstract evaluation, sibling call sites, announced = accepted codec types, "
        "the committed map restricted to present blobs, propositional guards on the CFG (a read only where the name is implied to exist, a full commit skips the copy only when the record vouches for it), pinned outputs of the signature combiner, arguments forwarded whole, private things found by role so that renames and moves raise no alarm). Rules of another property that are necessary conditions of this one as well are "
        "run under it (prefixed).")

CHECKS = [dict(property_id=p, text="Static verdict on: " + _T[p][0] + "." + MORE + WHY, design_ref=f"DESIGN.md section 4 ({p}) and sections 9.3 / 9.8 / 9.12 - 9.17", note=NOTE,
               technique="static analysis: " + _T[p][1]) for p in sorted(_DONE)]

_PENDING = "check under construction in this session; not claimed until it runs clean (see DESIGN.md)"
NOT_APPLICABLE = [
    dict(property_id="C18", reason="faithfulness/acyclicity of the exported graph quantifies over interaction trees of arbitrary user "
         "programs; no clause is decidable from the shape of _plotting.py by static analysis (DESIGN.md 4 C18)"),
] + [dict(property_id=p, reason=_PENDING) for p in sorted(set(_T) - set(_DONE))]
