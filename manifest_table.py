"""Single source for MANIFEST.json (see tools_gen_manifest.py)."""
NOTE = ("Trusted: CPython ast, mypy 1.5.1 inference for receiver/set types, the ddsverif engine (self-validated by the "
        "variant corpus in the thorough tier). Decides the listed structural clauses, each a necessary condition of the "
        "property; not the behaviour as a whole (see DESIGN.md section 4).")

CHECKS = [
    dict(property_id="C10",
         text="Static proof obligations on the CFG (with exceptional edges) of the API functions: context reset post-dominates "
              "every context set; store_blob and sync_paths are dominated by the normal completion of the user call / root value "
              "and lie in no handler; no swallowing handler around the user call. Holds for every input and exception at once, "
              "which is the quantifier the tests lack; decides these necessary clauses, not value-level behaviour.",
         design_ref="DESIGN.md 4 C10", note=NOTE,
         technique="static analysis: CFG dominance / post-dominance with exceptional edges, reaching definitions"),
]

_PENDING = "check under construction in this session; not claimed until it runs clean (see DESIGN.md)"
NOT_APPLICABLE = [
    dict(property_id="C18", reason="faithfulness/acyclicity of the exported graph quantifies over interaction trees of arbitrary user "
         "programs; no clause is decidable from the shape of _plotting.py by static analysis (DESIGN.md 4 C18)"),
] + [dict(property_id=p, reason=_PENDING) for p in
     ["C01","C02","C03","C04","C05","C06","C07","C08","C09","C11","C12","C13","C14","C15","C16","C17","C19"]]
